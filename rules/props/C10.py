"""C10 — restart from the journal reproduces the pre-crash state at every crash point."""
from hqrules.core import FailClosed, callee_of, callee_decl, op_local, op_place, place_fields, norm, op_const
from hqrules.templates import (effect_blocks, must_pass, state_writes, variants_at, call_sites, construct_sites, Effect,
                               loop_headers_containing, owner_fn, scrutinees, guard_edges, dominated_by_edges,
                               local_field_sources, binops, operand_fields, bool_uses, check_arm_effect, field_write_sites)
from .common import *
from .journal_common import *
from . import job_table, shared_rules

EXPLANATION = ('Structural necessary conditions of C10: (R10.1) every record that can be the first record of its task is replayed without '
               'assuming a prior entry; (R10.2) a torn tail is detected, its offset is plumbed to the writer and the file is truncated there; '
               '(R10.3) every acknowledged state-changing request is flushed to disk before the response is sent; (R10.4) flush = buffer flush + '
               'sync_data, and flush requests are answered only after it; (R10.5) single ordered writer; (R10.6) restore keeps outcomes, does not '
               'resubmit completed tasks and counts each restored outcome once.')
NOT_DECIDED = ['equality of restored and pre-crash state over all histories and cut points (relational, value-level)']
RELATED = {'C03': ['R03.5'], 'C06': ['R06.5', 'R06.8'], 'C07': ['R07.6', 'R07.7', 'R07.8'], 'C11': ['R11.1', 'R11.2'], 'C12': ['R12.5'], 'C13': ['R13.2~check_termination|on_job_completed|handle_job_close']}
ASSUMPTIONS = ['bincode framing: a record is either fully present or detected as UnexpectedEof']
OPTION = 'core::option::Option'
CLIENT = HQ + 'client::'


def run(ctx):
    prog = ctx.prog
    ctx.rule('R10.1', 'emit <-> replay agreement: a task record that can be emitted from Waiting (first record of its task) is replayed without unwrap on the task lookup')
    ctx.rule('R10.2', 'torn tail: UnexpectedEof sets partial_data_error; position -> truncate_size -> start_server -> initialize_server -> prepare_event_management -> create_or_append -> set_len + seek')
    ctx.rule('R10.3', 'durability before acknowledgement: every non-error Submit/Cancel/OpenJob/CloseJob (and autoalloc add/remove/pause/resume) response is preceded by flush_journal().await')
    ctx.rule('R10.4', 'JournalWriter::flush = BufWriter::flush then sync_data; the journal thread answers FlushJournal only after writer.flush()')
    ctx.rule('R10.5', 'single ordered writer: EventStreamMessage::Event constructed only in send_event; JournalWriter::store called only by the journal thread and prune')
    ctx.rule('R10.6', 'restore_job: completed tasks are not resubmitted, the restored state is copied with exactly its counter, and each outcome is counted once per task')

    ctx.rule('R10.7', 'record order: dependents are journaled as aborted before the failure of their dependency; aborted/canceled tasks without a start record are replayed as terminal')
    shared_rules.abort_before_fail(ctx, 'R10.7')
    shared_rules.replay_records_missing_entry(ctx, 'R10.7')
    ctx.rule('R10.8', 'emit discipline: JobClose is journaled only when an OPEN job is closed (a JobClose after JobCompleted cannot be replayed: the job record is gone)')
    jc = prog.body(JOB + 'close')
    evc = jc.call_blocks(STREAMER + 'on_job_closed')
    owners_ = set(o for o, b, bi in call_sites(prog, STREAMER + 'on_job_closed') if not is_test_util(o))
    ctx.ob('R10.8', 'on_job_closed|emitter', owners_ == {JOB + 'close'}, f'JobClose is emitted only by Job::close (observed {sorted(owners_)})', None)
    e_in, _ = guard_edges(jc, JOB + 'is_open', True)
    inner = bool(evc) and bool(e_in) and all(dominated_by_edges(jc, x, e_in, False) for x in evc)
    # or a plain read of the is_open field guarding the emission
    if not inner and evc:
        for x in jc.reachable():
            si_ = jc.switch_info(x)
            if si_ and si_['kind'] == 'bool' and 'is_open' in local_field_sources(jc, si_['local']) and jc.dominates(x, evc[0]) and evc[0] in jc.reach_from([si_['true_succ']]) and evc[0] not in jc.reach_from([si_['false_succ']], avoid=[x]):
                inner = True
    outer = True
    for o, b, bi in call_sites(prog, JOB + 'close'):
        if is_test_util(o):
            continue
        e_o, _ = guard_edges(b, JOB + 'is_open', True)
        if not (e_o and dominated_by_edges(b, bi, e_o)):
            outer = False
    ctx.ob('R10.8', 'JobClose only for an open job', inner or outer, 'the JobClose event is emitted under is_open()==true (inside Job::close or at every call site)', jc.loc(evc[0]) if evc else jc.loc())
    ctx.rule('R10.9', 'every event whose replay changes the restored state is persisted (ForwardMode::StreamAndPersist), not only streamed to clients')
    FM = HQ + 'event::streamer::ForwardMode'
    rwr = replay_writes(prog)
    modes = {}
    for p_, b_ in prog.bodies.items():
        if not p_.startswith(STREAMER + 'on_') or b_.kind != 'method':
            continue
        pv = set(s_['rv'][1][2] for o_, bb_, bi_, s_ in construct_sites(prog, EP) if bb_.path == p_)
        fm = set(s_['rv'][1][2] for o_, bb_, bi_, s_ in construct_sites(prog, FM) if bb_.path == p_)
        for v_ in pv:
            modes.setdefault(v_, set()).update(fm)
    npers = 0
    for v_, fields_ in sorted(rwr.items()):
        if not fields_ or v_ not in modes:
            continue
        npers += 1
        ctx.ob('R10.9', f'{v_}|persisted', 'StreamAndPersist' in modes[v_],
               f'{v_} is replayed into {sorted(fields_)} on restart, so its emitter must persist it (observed modes {sorted(modes[v_])})', None)
    ctx.floor('R10.9', npers, 8, 'replayed event kinds with an emitter')
    # ---- R10.10 a restart does not journal again what it replays
    ctx.rule('R10.10', 'restore is silent: re-creating an object from the journal emits no creation record (create_queue announces AllocationQueueCreated only for a new queue, i.e. queue_id == None; restore_jobs_and_queues reaches no job-creation emitter) - a second record of the same object breaks the next restart')
    PROC_ = HQ + 'autoalloc::process::'
    cq_ = prog.body(PROC_ + 'create_queue')
    em_ = cq_.call_blocks(STREAMER + 'on_allocation_queue_created')
    ctx.require(em_, 'R10.10: create_queue does not announce new queues')
    e_none, _c = guard_edges(cq_, 'core::option::Option::is_none', True)
    okn = bool(e_none) and all(dominated_by_edges(cq_, x, e_none, False) for x in em_)
    if not okn:
        for k_, d_ in scrutinees(cq_, OPTION).items():
            if d_.get('root_is_arg') and all(set(variants_at(cq_, OPTION, x, k_) or ()) == {'None'} for x in em_):
                okn = True
    ctx.ob('R10.10', 'create_queue|announces only a new queue', okn, 'on_allocation_queue_created is emitted only under queue_id.is_none() (a queue re-created while restoring the journal is already recorded there)', cq_.loc(em_[0]))
    rjq = prog.body(RESTORE + 'StateRestorer::restore_jobs_and_queues')
    mc_ = prog.may_call(rjq.path)
    bad_em = sorted(x.split('::')[-1] for x in mc_ if x.startswith(STREAMER + 'on_job_') or x == STREAMER + 'on_allocation_queue_created')
    ctx.ob('R10.10', 'restore_jobs_and_queues|emits no creation record', not bad_em, f'restore_jobs_and_queues reaches no job/queue creation emitter (observed {bad_em})', rjq.loc())
    lef = prog.body(LEF)
    # ---- R10.1
    ws = job_table.job_state_writes(prog)
    emit_from = {}   # setter -> old states
    for owner, b, bi, s, new, old in ws:
        if owner.startswith(JOB) and old:
            emit_from.setdefault(owner, set()).update(old)
    ev_of_setter = {}
    for setter in emit_from:
        b = prog.body(setter)
        for bi, t, c in b.calls():
            if c and c.startswith(STREAMER + 'on_task_') and bi in b.reachable():
                # which payload does that streamer method construct
                sb = prog.body(c)
                for o, bb, bj, s in construct_sites(prog, EP):
                    if bb.path == sb.path:
                        ev_of_setter.setdefault(setter, set()).add(s['rv'][1][2])
    ctx.note('emit_table', {k.split('::')[-1]: dict(old=sorted(emit_from[k]), events=sorted(ev_of_setter.get(k, []))) for k in emit_from})
    first_record_events = set()
    for setter, olds in emit_from.items():
        if 'Waiting' in olds:
            first_record_events |= ev_of_setter.get(setter, set())
    first_record_events -= {'TaskStarted'}
    ctx.ob('R10.1', 'derived first-record events', first_record_events == {'TaskFailed', 'TasksCanceled', 'TasksAborted'},
           f'task records that can be emitted while the task is still Waiting: {sorted(first_record_events)}', None)
    UNWRAP = {'core::option::Option::unwrap', 'core::option::Option::expect'}
    for ev in sorted(first_record_events):
        bad = []
        for bi, t, c in lef.calls():
            if c in UNWRAP and bi in lef.reachable():
                vs = variants_at(lef, EP, bi)
                if vs and set(vs) == {ev}:
                    l = op_local(t['args'][0])
                    if l is not None and 'tasks' in local_field_sources(lef, l):
                        bad.append(bi)
        ctx.ob('R10.1', f'load_event_file|{ev}|tolerates missing entry', not bad,
               f'the {ev} record may be the first record of its task (emitted from Waiting); its replay arm must not unwrap the task lookup', lef.loc(bad[0]) if bad else lef.loc())

    # ---- R10.2
    nx = prog.find_bodies(r'^<&mut hyperqueue::server::event::journal::read::JournalReader as core::iter::traits::iterator::Iterator>::next$')
    ctx.require(nx, 'R10.2: JournalReader::next missing')
    nx = nx[0]
    wr = [(bi, st) for bi, st, pl, fs in nx.field_writes() if fs and fs[-1][0] == 'partial_data_error']
    ctx.require(wr, 'R10.2: write of partial_data_error missing')
    EK = [e for e in prog.enums if e.endswith('io::error::ErrorKind')]
    ctx.require(len(EK) == 1, 'R10.2: io::ErrorKind enum not in facts')
    EK = EK[0]
    for bi, st in wr:
        vs = variants_at(nx, EK, bi) if prog.enum(EK) else None
        ctx.ob('R10.2', 'JournalReader::next|partial only on UnexpectedEof', vs is not None and set(vs) == {'UnexpectedEof'}, f'partial_data_error is set exactly under io::ErrorKind::UnexpectedEof (observed {sorted(vs) if vs else vs})', nx.loc(bi, st))
    errs = [1 for o, b, bi, s in construct_sites(prog, 'core::result::Result', 'Err') if b.path == nx.path]
    ctx.ob('R10.2', 'JournalReader::next|other errors surface', bool(errs), 'every other deserialization error is returned as Some(Err)', nx.loc())
    cpd = lef.call_blocks(JR + '::contains_partial_data')
    pos = lef.call_blocks(JR + '::position')
    tw = [(bi, st) for bi, st, pl, fs in lef.field_writes() if fs and fs[-1][0] == 'truncate_size']
    ctx.require(cpd and pos and tw, 'R10.2: anchors in load_event_file')
    edges, _ = guard_edges(lef, JR + '::contains_partial_data', True)
    ctx.ob('R10.2', 'load_event_file|truncate_size <- position under partial', dominated_by_edges(lef, tw[0][0], edges, False) and lef.term[pos[0]]['d'][0] in lef.derived_from(_src_local(lef, tw[0][1])),
           'truncate_size = Some(reader.position()) exactly when the reader saw partial data', lef.loc(tw[0][0], tw[0][1]))
    ss = coroutine_of(prog, BOOT + 'start_server')
    ini = ss.call_blocks(BOOT + 'initialize_server')
    ts = [bi for p in prog.with_closures(BOOT + 'start_server') for bi in prog.bodies[p].call_blocks(SR + '::truncate_size')]
    ctx.require(ini, 'R10.2: initialize_server call')
    a4 = op_local(ss.term[ini[0]]['args'][4])
    ok = False
    for x in ss.derived_from(a4):
        for d in ss.defs().get(x, ()):
            if d[1] == 'a' and d[2]['rv'][0] == 'agg' and d[2]['rv'][1][0] == 'closure':
                cb = prog.bodies.get(norm(d[2]['rv'][1][1]))
                if cb and cb.call_blocks(SR + '::truncate_size'):
                    ok = True
            if d[1] == 'call' and callee_of(d[2]) == SR + '::truncate_size':
                ok = True
    ctx.ob('R10.2', 'start_server|truncate_size -> initialize_server', ok, 'the fifth argument of initialize_server derives from restorer.truncate_size()', ss.loc(ini[0]))
    isv = coroutine_of(prog, BOOT + 'initialize_server')
    pem = isv.call_blocks(BOOT + 'prepare_event_management')
    ctx.require(pem, 'R10.2: prepare_event_management call')
    ctx.ob('R10.2', 'initialize_server|truncate_log -> prepare_event_management', 'truncate_log' in local_field_sources(isv, op_local(isv.term[pem[0]]['args'][2])) or _derives_named(isv, op_local(isv.term[pem[0]]['args'][2]), 'truncate_log', 'core::option::Option<u64>'),
           'prepare_event_management receives truncate_log', isv.loc(pem[0]))
    pev = coroutine_of(prog, BOOT + 'prepare_event_management')
    coa = pev.call_blocks(JW + 'create_or_append')
    ctx.require(coa, 'R10.2: create_or_append call')
    ctx.ob('R10.2', 'prepare_event_management|truncate_log -> create_or_append', _derives_named(pev, op_local(pev.term[coa[0]]['args'][1]), 'truncate_log', 'core::option::Option<u64>'),
           'create_or_append receives truncate_log', pev.loc(coa[0]))
    cab = prog.body(JW + 'create_or_append')
    sl = cab.call_blocks('std::fs::File::set_len')
    sk = cab.call_blocks(lambda c: c.endswith('::seek'))
    ctx.ob('R10.2', 'create_or_append|set_len', bool(sl) and 2 in cab.derived_from(op_local(cab.term[sl[0]]['args'][1])) if sl else False, 'the file is cut to the truncate offset (File::set_len) — overwriting in place leaves the tail of the torn record', cab.loc(sl[0]) if sl else cab.loc())
    if sl:
        optk = [k for k, d in scrutinees(cab, OPTION).items() if d['root'] == 2 or d['root_is_arg']]
        vs = variants_at(cab, OPTION, sl[0])
        ctx.ob('R10.2', 'create_or_append|set_len under Some', vs is not None and set(vs) == {'Some'}, 'set_len runs exactly when a truncate offset was given', cab.loc(sl[0]))
        ctx.ob('R10.2', 'create_or_append|seek after', bool(sk) and sk[0] in cab.reach_from(sl), 'the writer is positioned after truncation', cab.loc(sk[0]) if sk else cab.loc())

    # ---- R10.3
    crl = coroutine_of(prog, CLIENT + 'client_rpc_loop')
    fl = set(crl.call_blocks(STREAMER + 'flush_journal'))
    ctx.floor('R10.3', len(fl), 1, 'flush_journal calls in client_rpc_loop')
    IS_ERR = 'hyperqueue::transfer::messages::ToClientMessage::is_error'
    err_edges, _ = guard_edges(crl, IS_ERR, True)
    sends = crl.call_blocks(lambda c: c.endswith('SinkExt::send')) + crl.call_blocks(CLIENT + 'start_streaming')
    nxt = crl.call_blocks(lambda c: c.endswith('StreamExt::next'))
    for name, anchor in (('Submit', CLIENT + 'submit::handle_submit'), ('Cancel', CLIENT + 'handle_job_cancel'),
                         ('OpenJob', CLIENT + 'submit::handle_open_job'), ('CloseJob', CLIENT + 'handle_job_close')):
        ab = crl.call_blocks(anchor)
        ctx.require(ab, f'R10.3: {anchor} not called in client_rpc_loop')
        r = crl.reach_after(ab[0], avoid=fl | set(nxt), avoid_edges=err_edges)
        bad = [x for x in sends if x in r]
        ctx.ob('R10.3', f'client_rpc_loop|{name}|flush before response', not bad,
               f'{name}: every path from a non-error result to the response passes flush_journal().await', crl.loc(bad[0]) if bad else crl.loc(ab[0]))
    ham = coroutine_of(prog, CLIENT + 'autoalloc::handle_autoalloc_message')
    fl2 = set(ham.call_blocks(STREAMER + 'flush_journal'))
    ctx.ob('R10.3', 'handle_autoalloc_message|flushes', len(fl2) >= 1, 'allocation-queue changes are flushed before they are acknowledged', ham.loc())
    # per arm: each success response of a queue-changing request (the one that hands out a queue id included) is built
    # after a flush (dominated by it) or cannot reach the return without one; `len(fl2) >= 1` alone would accept a
    # handler that lost the flush of a single arm
    MSG = 'hyperqueue::transfer::messages::'
    rets = set(ham.returns())
    for enum, variant in ((MSG + 'QueueCreateResponse', 'Created'), (MSG + 'AutoAllocResponse', 'QueueRemoved'),
                          (MSG + 'AutoAllocResponse', 'QueuePaused'), (MSG + 'AutoAllocResponse', 'QueueResumed')):
        sites = [(b, bi) for _, b, bi, _ in construct_sites(prog, enum, variant) if b.path == ham.path]
        ctx.require(sites, f'R10.3: {variant} is not constructed in handle_autoalloc_message')
        for b, bi in sites:
            ok = any(ham.dominates(f, bi) for f in fl2) or not ham.exists_path([bi], rets, avoid=fl2)
            ctx.ob('R10.3', f'handle_autoalloc_message|{variant}|flush before response', ok,
                   f'{variant}: the acknowledgement of the queue change is built after flush_journal().await (or cannot be returned without it)', ham.loc(bi))
    fj = coroutine_of(prog, STREAMER + 'flush_journal')
    ctx.ob('R10.3', 'flush_journal|awaits the journal thread', bool(fj.yields()) and bool(fj.call_blocks(STREAMER + 'start_flush')), 'flush_journal awaits the acknowledgement of the journal thread', fj.loc())

    # ---- R10.4
    fb = prog.body(JW + 'flush')
    bf = fb.call_blocks(lambda c: c.endswith('Write>::flush') or c.endswith('BufWriter::flush') or c.endswith('io::Write::flush'))
    sd = fb.call_blocks('std::fs::File::sync_data') + fb.call_blocks('std::fs::File::sync_all')
    ctx.ob('R10.4', 'JournalWriter::flush|buffer flush', bool(bf), 'flush drains the BufWriter', fb.loc())
    ok, wit = must_pass(fb, [0], sd)
    ok = bool(sd) and (ok or _only_error_exits(fb, sd))
    ctx.ob('R10.4', 'JournalWriter::flush|sync_data', ok, 'flush reaches the disk (sync_data) on every successful path', fb.loc(sd[0]) if sd else fb.loc())
    if bf and sd:
        ctx.ob('R10.4', 'JournalWriter::flush|order', sd[0] in fb.reach_from(bf) and bf[0] not in fb.reach_after(sd[0]), 'the buffer is flushed before the sync', fb.loc(sd[0]))
    sp_bodies = [prog.bodies[p] for p in prog.with_closures(STREAM + 'streaming_process')]
    ESM = STREAM + 'EventStreamMessage'
    nans = 0
    for b in sp_bodies:
        cbs = b.call_blocks(lambda c: c.endswith('oneshot::Sender::send'))
        wf = set(b.call_blocks(JW + 'flush'))
        for cbk in cbs:
            vs = variants_at(b, ESM, cbk)
            if vs and set(vs) == {'FlushJournal'}:
                nans += 1
                hs = loop_headers_containing(b, cbk)
                ok = cbk not in b.reach_from(hs[:1] or [0], avoid=wf)
                ctx.ob('R10.4', 'streaming_process|FlushJournal answered after flush', ok, 'the FlushJournal callback fires only after writer.flush()', b.loc(cbk))
    ctx.floor('R10.4', nans, 1, 'FlushJournal answer site')

    # ---- R10.5
    n = 0
    for o, b, bi, s in construct_sites(prog, ESM, 'Event'):
        if is_test_util(o):
            continue
        n += 1
        ctx.ob('R10.5', f'EventStreamMessage::Event|{o.split("::")[-1]}', o == STREAMER + 'send_event', 'events enter the journal queue only through EventStreamer::send_event', b.loc(bi))
    ctx.floor('R10.5', n, 1, 'construct sites of EventStreamMessage::Event')
    callers = set(o for o, b, bi in call_sites(prog, JW + 'store') if not is_test_util(o))
    ctx.ob('R10.5', 'JournalWriter::store|callers', callers == {STREAM + 'streaming_process', PRUNE}, f'records are written only by the journal thread and by prune (observed {sorted(x.split("::")[-1] for x in callers)})', None)
    spawn = set(o for o, b, bi in call_sites(prog, STREAM + 'streaming_process') if not is_test_util(o))
    ctx.ob('R10.5', 'streaming_process|single instance', spawn == {STREAM + 'start_event_streaming'}, 'one journal thread per server', None)

    # ---- R10.6
    rj = prog.body(RESTORE + 'RestorerJob::restore_job')
    cu = job_table.counter_updates(rj)
    ctx.floor('R10.6', len(cu), 1, 'counter increments in restore_job')
    want = {'Finished': 'n_finished_tasks', 'Failed': 'n_failed_tasks', 'Canceled': 'n_canceled_tasks', 'Aborted': 'n_aborted_tasks'}
    flows_ = rj.variant_flow(JTS)
    # the restorer-side scrutinee (task.state of RestorerTaskInfo): the one that distinguishes the terminal states at the increments
    rkeys = [k for k, st in flows_.items() if all(st.get(x[0]) is not None and len(st.get(x[0])) == 1 and set(st.get(x[0])) <= set(want) for x in cu)]
    ctx.require(len(rkeys) == 1, f'R10.6: restorer-state scrutinee not identified ({list(flows_)})')
    rkey = rkeys[0]
    for bi, s, field, sign, amount in cu:
        vs = variants_at(rj, JTS, bi, rkey)
        exp = [k for k, v in want.items() if v == field]
        ctx.ob('R10.6', f'restore_job|{field}', sign == '+' and vs is not None and set(vs) == set(exp) and amount and amount.startswith('1_'),
               f'{field} is incremented by 1 exactly for a restored {exp} task (observed arm {sorted(vs) if vs else vs})', rj.loc(bi, s))
    # every task with a restorer record reaches the switch over its recorded state (nothing skips the terminal handling)
    sw_blocks = [bi_ for bi_ in rj.reachable() if (rj.switch_info(bi_) or {}).get('kind') == 'discr' and rj.switch_info(bi_)['enum'] == JTS and rj.canon_key(rj.switch_info(bi_)['place']) == rkey]
    gm = [bi_ for bi_ in rj.call_blocks(lambda c: c.endswith('HashMap::get_mut') or c.endswith('HashMap::get')) if 'tasks' in local_field_sources(rj, op_local(rj.term[bi_]['args'][0]), through_mutation=False)]
    okall = False
    if sw_blocks and gm:
        OPT_ = 'core::option::Option'
        for k_, d_ in scrutinees(rj, OPT_).items():
            if d_['root'] == rj.term[gm[0]]['d'][0] and k_ == f"_{d_['root']}":
                ent_, reg_ = rj.arm_entries(OPT_, {'Some'}, k_)
                hs_ = loop_headers_containing(rj, gm[0])
                okall, _w = must_pass(rj, ent_, sw_blocks, exits=hs_[:1] + list(rj.returns()))
    ctx.ob('R10.6', 'restore_job|every recorded task reaches the outcome switch', okall,
           'for every task that has a restorer record the recorded state is inspected (no early `continue`, e.g. for tasks without an instance id, may skip restoring a terminal outcome and its counter)', rj.loc(sw_blocks[0]) if sw_blocks else rj.loc())
    sw = [(bi, s) for bi, s, pl, fs in rj.field_writes() if fs and fs[-1][0] == 'state' and fs[-1][1] == HQ + 'job::JobTaskInfo']
    ctx.require(sw, 'R10.6: job_task.state write missing')
    vs = variants_at(rj, JTS, sw[0][0], rkey)
    ctx.ob('R10.6', 'restore_job|state copied for terminal', vs is not None and set(vs) == set(want), f'the restored state is copied exactly for terminal tasks (Waiting/Running are resubmitted) (observed {sorted(vs) if vs else vs})', rj.loc(sw[0][0], sw[0][1]))
    # once per task: the counting loop must not be re-run per submit over all tasks
    inc_blocks = [x[0] for x in cu]
    hs = loop_headers_containing(rj, inc_blocks[0])
    once = True
    detail = None
    if len(hs) >= 2:
        inner, outer = hs[0], hs[1]
        # iterator of the inner loop: the `next` call at its header region; its receiver derives from ...?
        item_outer = _loop_item(rj, outer)
        it_inner = _loop_iter_source(rj, inner)
        dep = bool(item_outer is not None and it_inner is not None and item_outer in rj.derived_from(it_inner, through_mutation=False))
        # ... unless the increments are guarded by the LIVE task still being in its initial state (so a task restored
        # while processing an earlier submit is skipped)
        restorer_keys = set()
        for bi_ in inc_blocks:
            pass
        guarded = False
        for key, st in rj.variant_flow(JTS).items():
            if key == rkey:
                continue
            vs_inc = [st.get(x) for x in inc_blocks]
            if all(v is not None and set(v) == {'Waiting'} for v in vs_inc):
                guarded = True
        once = dep or guarded
        detail = dict(inner_header=rj.loc(inner), outer_header=rj.loc(outer), inner_iter_depends_on_outer_item=dep, guarded_by_live_state_waiting=guarded)
    ctx.ob('R10.6', 'restore_job|each outcome counted once', once,
           'the counter increments sit in a loop over ALL tasks of the job nested in the per-submit loop; they must depend on the submit or be guarded by the live task still being Waiting, otherwise a job restored from several submits counts the terminal tasks of earlier submits again',
           rj.loc(inc_blocks[0]), detail)

    # ---- R10.2 (cont.) a cut inside the file header is a torn tail at offset 0
    jro = prog.body(JR + '::open')
    cons = [(bi, s_) for o_, b_, bi, s_ in construct_sites(prog, JR) if b_.path == jro.path]
    partial_ctor = False
    for bi, s_ in cons:
        names = s_['rv'][1][3]
        if 'partial_data_error' in names:
            o_ = s_['rv'][2][names.index('partial_data_error')]
            if o_[0] != 'k' or 'true' in str(o_[1]):
                partial_ctor = True
    hdr_reads = jro.call_blocks(lambda c: c.endswith(('Read::read_exact', 'Options::deserialize_from')))
    ctx.ob('R10.2', 'JournalReader::open|header cut short is partial data', partial_ctor and len(cons) >= 2,
           'JournalReader::open returns a reader positioned at 0 with partial data when the file ends inside its header (0..9 bytes: the first write failed or did not reach the disk); propagating the read error makes every later start refuse the journal although nothing was ever acknowledged from it', jro.loc(hdr_reads[0]) if hdr_reads else jro.loc())

    # ---- R10.12 the journal thread outlives its clients
    ctx.rule('R10.12', 'streaming_process (the only journal writer) ends only on journal I/O errors or when the server drops its queue: the result of a send to a per-client channel (history replay) is never propagated with `?` - a client that disconnects during a replay must not end the thread, after which nothing is journaled or flushed any more')
    n12 = 0
    for b in sp_bodies:
        for bi, t, c in b.calls():
            if bi not in b.reachable() or not (c or '').endswith(('UnboundedSender::send', 'mpsc::bounded::Sender::send', 'oneshot::Sender::send')):
                continue
            ty = b.locals[op_local(t['args'][0])][0] if op_local(t['args'][0]) is not None else ''
            n12 += 1
            dl = t['d'][0]
            tried = [x for x, t2, c2 in b.calls() if x in b.reachable() and (c2 or '').endswith('Try>::branch') and t2['args'] and op_local(t2['args'][0]) is not None and dl in b.derived_from(op_local(t2['args'][0]), through_mutation=False)]
            ctx.ob('R10.12', f'streaming_process|send to a client channel not propagated|{"history" if "Event>" in ty and "EventStreamMessage" not in ty else "callback"}', not tried,
                   'the result of sending to a channel owned by a client connection is handled locally (stop the replay / ignore), not returned from the journal thread', b.loc(tried[0]) if tried else b.loc(bi))
    ctx.floor('R10.12', n12, 2, 'sends to client channels in streaming_process')

    # ---- R10.13 a flush that did not happen is not acknowledged
    ctx.rule('R10.13', 'flush_journal can tell its callers that the journal thread is gone: its output is a Result (or the server stops when the journal thread ends); with output `()` a closed reply channel is indistinguishable from a completed flush and every request is still acknowledged after a journal I/O error')
    fjc = [prog.bodies[p_] for p_ in prog.with_closures(STREAMER + 'flush_journal') if prog.bodies[p_].kind == 'coroutine']
    ctx.require(fjc, 'R10.13: flush_journal coroutine')
    out_ty = fjc[0].locals[0][0]
    ctx.ob('R10.13', 'flush_journal|reports a failed flush', out_ty.strip() != '()' and ('Result' in out_ty or 'bool' in out_ty),
           f'the future returned by flush_journal resolves to a value that distinguishes "flushed" from "journal thread gone" (observed output type `{out_ty}`)', fjc[0].loc())


def _src_local(b, st):
    rv = st['rv']
    if rv[0] == 'use':
        return op_local(rv[1])
    return st['p'][0]


def _derives_named(b, l, name, ty=None):
    """does local l derive from the async-fn parameter `name` (an upvar of the coroutine); falls back to the parameter type when the name is gone"""
    if l is None:
        return False
    targets = set()
    if ty is not None and name not in b.names:
        # parameter renamed: identify by type among the locals assigned from upvars
        for x, ds in b.defs().items():
            for d in ds:
                if d[1] == 'a' and d[2]['rv'][0] == 'use' and op_place(d[2]['rv'][1]) and any(isinstance(e, list) and e[0] == 'f' and e[3] == '{upvar}' for e in op_place(d[2]['rv'][1])[1]) and ty in b.locals[x][0]:
                    targets.add(x)
        return bool(targets & b.derived_from(l))
    for pl in b.names.get(name, []):
        targets.add(pl[0]) if not pl[1] else None
        if pl[1]:
            # upvar field: any local assigned from that place
            for x, ds in b.defs().items():
                for d in ds:
                    if d[1] == 'a':
                        from hqrules.core import rv_places, place_key
                        if any(place_key(p) == place_key(pl) for p in rv_places(d[2]['rv'])):
                            targets.add(x)
    if name in local_field_sources(b, l):
        return True
    return bool(targets & b.derived_from(l))


def _only_error_exits(b, through):
    """paths from entry to return avoiding `through` exist only via `?` error returns (Result::Err constructed)."""
    r = b.reach_from([0], avoid=through)
    for ret in b.returns():
        if ret in r:
            # every predecessor chain into ret avoiding `through` must pass a FromResidual (the ? operator)
            q = b.call_blocks(lambda c: 'FromResidual' in c)
            r2 = b.reach_from([0], avoid=set(through) | set(q))
            if ret in r2:
                return False
    return True


def _loop_item(b, header):
    """local receiving Iterator::next at (or right after) a loop header"""
    for x in sorted(b.reach_from([header])):
        t = b.term[x]
        if t and t['k'] == 'call' and (callee_decl(t) or '').endswith('Iterator::next') and header in loop_headers_containing(b, x)[:1] + [header]:
            return t['d'][0]
    return None


def _loop_iter_source(b, header):
    for x in sorted(b.reach_from([header])):
        t = b.term[x]
        if t and t['k'] == 'call' and (callee_decl(t) or '').endswith('Iterator::next'):
            hs = loop_headers_containing(b, x)
            if hs and hs[0] == header:
                return op_local(t['args'][0])
    return None
