"""C04 — worker resources are exclusive and conserved (structural clauses only)."""
from hqrules.core import FailClosed, callee_of, callee_decl, op_local, op_place, place_fields, norm, op_const
from hqrules.templates import (effect_blocks, must_pass, state_writes, variants_at, call_sites, construct_sites, Effect,
                               loop_headers_containing, owner_fn, scrutinees, guard_edges, dominated_by_edges,
                               local_field_sources, binops, operand_fields, field_write_sites, field_read_sites, bool_uses)
from .common import *
from . import C16 as _c16

EXPLANATION = ('Index exclusivity and amounts are invariants over reachable pool states (numbers) and are not decided. Decided: (R04.1) linearity - '
               'no value holding an Rc<Allocation> is implicitly dropped on a normal path of the synchronous worker functions (drop-elaborated MIR); '
               '(R04.2) when a task future ends its allocation is handed to prefill_loop, which reuses or releases it, and try_start_task either '
               'stores or returns it; (R04.3) the free-resource summary is updated together with the pools and only the allocator writes them; '
               '(R04.4) the allocation shown to the task is the one stored for it; (R16.1) admission and grant agree.')
NOT_DECIDED = ['index exclusivity, <=100% per index, sums <= size, "exactly the requested amount" as invariants over pool states / numbers (decided: pairing of claim and release, summary mirrors pools, fraction bookkeeping shapes R04.6-R04.9, label map agreement R04.8)']
RELATED = {'C16': ['R16.2']}
ASSUMPTIONS = []
W = T + 'worker::'
ALLOCATOR = W + 'resources::allocator::ResourceAllocator'
RA = ALLOCATOR + '::'
REACT = W + 'reactor::'
ALLOC_TY = 'resources::allocation::Allocation'


def run(ctx):
    prog = ctx.prog
    ctx.rule('R04.1', 'linearity: no implicit drop of Rc<Allocation> / RunningTask on a normal path of the synchronous worker functions (drop-elaborated MIR)')
    ctx.rule('R04.2', 'every path of handle_task_future / try_alloc_and_start_task / prefill_loop / try_start_task stores, returns or releases the allocation')
    ctx.rule('R04.3', 'summary mirrors pools: try_allocate removes from the summary what it claimed; release adds it back and releases the pools; only the allocator writes pools / free_resources')
    ctx.rule('R04.4', 'told = held: the allocation passed to launch_task (task environment) is the one stored in RunningTask::new')
    ctx.rule('R04.5', 'admission = grant (shared with C16 R16.1)')

    # ---- R04.1
    E = prog.elab
    ctx.require(E is not None and len(E.bodies) > 100, 'R04.1: elaborated MIR facts for tako::internal::worker:: missing')
    nb, nd = 0, 0
    allow = {}
    for p, b in E.bodies.items():
        if not any(p.startswith(W + m) for m in ('reactor', 'state', 'rpc')):
            continue
        nb += 1
        for bi in b.reachable():
            t = b.term[bi]
            if t and t['k'] == 'drop':
                nd += 1
                ty = t['ty']
                if ('Rc<tako::internal::worker::' + ALLOC_TY) in ty or 'worker::task::RunningTask' in ty:
                    ctx.ob('R04.1', f'{p.split("::")[-1]}|implicit drop of {ty.split("::")[-1][:40]}', (p, ty) in allow,
                           f'{p}: a value of type {ty[:80]} is dropped implicitly (its resources are never released to the allocator)', b.loc(bi))
    ctx.ob('R04.1', 'no implicit drop in synchronous worker functions', True, f'{nb} elaborated bodies, {nd} drop terminators inspected', None)
    ctx.floor('R04.1', nb, 20, 'elaborated worker bodies')

    # ---- R04.2
    htf = [prog.bodies[p] for p in prog.with_closures(REACT + 'handle_task_future') if prog.bodies[p].kind == 'coroutine']
    ctx.require(htf, 'R04.2: handle_task_future')
    hb = htf[0]
    rr = hb.call_blocks(W + 'state::WorkerState::remove_running_task')
    pl_ = hb.call_blocks(REACT + 'prefill_loop')
    ctx.require(rr and pl_, 'R04.2: anchors in handle_task_future')
    ok, wit = must_pass(hb, rr, pl_)
    ctx.ob('R04.2', 'handle_task_future|allocation handed to prefill_loop', ok, 'after remove_running_task every path reaches prefill_loop', hb.loc(wit[1]) if wit else hb.loc(rr[0]))
    t = hb.term[pl_[0]]
    al = op_place(t['args'][3])
    okf = al is not None and any(n == 'allocation' for n, a, v in place_fields(al)) or (al is not None and 'allocation' in local_field_sources(hb, al[0]))
    ctx.ob('R04.2', 'handle_task_future|the removed task allocation', okf and hb.term[rr[0]]['d'][0] in hb.derived_from(al[0]) if al else False, 'prefill_loop receives the allocation of the task that just ended', hb.loc(pl_[0]))
    pf = prog.body(REACT + 'prefill_loop')
    rel = pf.call_blocks(RA + 'release_allocation')
    tst = pf.call_blocks(REACT + 'try_start_task')
    ok2, wit2 = must_pass(pf, [0], set(rel) | set(tst))
    ctx.ob('R04.2', 'prefill_loop|reuse or release', bool(rel) and ok2, 'prefill_loop starts a backlog task with the allocation or releases it on every path', pf.loc())
    # after try_start_task returned Some(a) the loop continues with a (re-assigned) and finally releases
    ts = prog.body(REACT + 'try_start_task')
    rtn = ts.call_blocks(W + 'task::RunningTask::new')
    ctx.require(rtn, 'R04.2: RunningTask::new in try_start_task')
    OPTION = 'core::option::Option'
    somes = [bi for o, b, bi, s in construct_sites(prog, OPTION, 'Some') if b.path == ts.path]
    param = [l for l in range(1, ts.argc + 1) if ALLOC_TY in ts.locals[l][0]]
    ctx.require(len(param) == 1, 'R04.2: allocation parameter of try_start_task')
    good = set(rtn) | set(x for x in somes if _some_of(ts, x, param[0]))
    ok3, wit3 = must_pass(ts, [0], good)
    ctx.ob('R04.2', 'try_start_task|stored or returned', ok3, 'try_start_task either moves the allocation into RunningTask::new or returns Some(allocation) on every path', ts.loc(wit3[1]) if wit3 else ts.loc())
    ta = prog.body(REACT + 'try_alloc_and_start_task')
    tal = ta.call_blocks(RA + 'try_allocate')
    tst2 = ta.call_blocks(REACT + 'try_start_task')
    pl2 = ta.call_blocks(REACT + 'prefill_loop')
    ctx.require(tal and tst2 and pl2, 'R04.2: anchors in try_alloc_and_start_task')
    keys = sorted([k for k, d in scrutinees(ta, OPTION).items() if d['root'] == ta.term[tst2[0]]['d'][0]], key=len)
    ctx.require(keys, 'R04.2: result of try_start_task not matched')
    entries, region = ta.arm_entries(OPTION, {'Some'}, keys[0])
    ok4, _ = must_pass(ta, entries, pl2)
    ctx.ob('R04.2', 'try_alloc_and_start_task|returned allocation goes to prefill_loop', ok4, 'an allocation handed back by try_start_task is passed to prefill_loop (which releases it)', ta.loc(pl2[0]))

    # ---- R04.3
    tr = prog.body(RA + 'try_allocate')
    cl = tr.call_blocks(RA + 'claim_resources')
    rm = tr.call_blocks(lambda c: c.endswith('ConciseFreeResources::remove'))
    ctx.require(cl and rm, 'R04.3: anchors in try_allocate')
    ok, _ = must_pass(tr, cl, rm)
    same = tr.term[cl[0]]['d'][0] in tr.derived_from(op_local(tr.term[rm[0]]['args'][1]))
    ctx.ob('R04.3', 'try_allocate|summary -= claimed', ok and same, 'free_resources.remove(&allocation) follows claim_resources on every path and receives the claimed allocation', tr.loc(rm[0]))
    rl = prog.body(RA + 'release_allocation')
    ad = rl.call_blocks(lambda c: c.endswith('ConciseFreeResources::add'))
    rh = rl.call_blocks(RA + 'release_allocation_helper')
    ok1, _ = must_pass(rl, [0], ad)
    ok2, _ = must_pass(rl, [0], rh)
    ctx.ob('R04.3', 'release_allocation|summary += and pools released', bool(ad) and bool(rh) and ok1 and ok2, 'release_allocation updates the summary and every pool on every path', rl.loc())
    rhb = prog.body(RA + 'release_allocation_helper')
    prl = [bi for bi in rhb.call_blocks(W + 'resources::pool::ResourcePool::release_allocation')]
    ctx.ob('R04.3', 'release_allocation_helper|per resource', bool(prl) and bool(loop_headers_containing(rhb, prl[0])), 'each resource of the allocation is released into its pool', rhb.loc())
    for f in ('pools', 'free_resources'):
        wr = set(o for o, b, bi, st, k in field_write_sites(prog, ALLOCATOR, f) if not is_test_util(o) and not o.startswith(RA) and 'test' not in o)
        ctx.ob('R04.3', f'{f}|writers', not wr, f'ResourceAllocator.{f} is written / mutably borrowed only inside the allocator (outside: {sorted(wr)})', None)

    # ---- R04.6 fraction bookkeeping in the pool
    ctx.rule('R04.6', 'pool: a fraction handed to an allocation is subtracted from the per-index free-fraction entry on the same path (try_take_fraction); fractions returned on release are added back')
    POOLP = W + 'resources::pool::ResourcePool::'
    ttf = prog.body(POOLP + 'try_take_fraction')
    pushes_ = ttf.call_blocks(lambda c: c.endswith('SmallVec::push'))
    subs_ = [bi for bi, t, c in ttf.calls() if bi in ttf.reachable() and (callee_decl(t) or '').endswith(('SubAssign::sub_assign', 'Sub::sub'))] + \
        [bi for bi, s_, op, a, c in binops(ttf) if op.startswith('Sub')]
    ctx.require(pushes_, 'R04.6: try_take_fraction hands out no index')
    okf = all(x not in ttf.reach_from([0], avoid=subs_) or must_pass(ttf, [x], subs_)[0] for x in pushes_) and bool(subs_)
    ctx.ob('R04.6', 'try_take_fraction|taken fraction subtracted', okf, 'the fraction pushed into the allocation is subtracted from the free-fraction entry of that index on the same path', ttf.loc(pushes_[0]))
    # ---- R04.7 order convention of Allocation.indices between the pool (producer) and the concise summary (consumer)
    ctx.rule('R04.7', 'index-order convention: ResourcePool (Indices) pushes whole indices before the fractional one; ConciseResourceState::add/remove loops that stop at the first whole index scan from the end; add and remove agree')
    CONC = W + 'resources::concise::ConciseResourceState::'
    shapes = {}
    for fn in ('add', 'remove'):
        cb_ = prog.body(CONC + fn)
        loops = []
        for bi, t, c in cb_.calls():
            if bi not in cb_.reachable() or not (callee_decl(t) or c or '').endswith('Iterator::next') or 'ForLoop' not in (t.get('x') or ''):
                continue
            hs = loop_headers_containing(cb_, bi)
            if not hs:
                continue
            h = hs[0]
            rev = 'rev::Rev' in (c or '') or 'Rev<' in cb_.locals[op_local(t['args'][0])][0]
            # an early exit on `fractions == 0`
            brk = False
            for b2, s2, op, a, c2 in binops(cb_):
                if op != 'Eq' or h not in cb_.reach_from([b2]) or b2 not in cb_.reach_from([bi]):
                    continue
                if 'fractions' not in (operand_fields(cb_, a) | operand_fields(cb_, c2)):
                    continue
                if not any(x[0] == 'k' and x[1].startswith('const 0') or (x[0] == 'k' and x[1].startswith('0_')) for x in (a, c2)):
                    continue
                for sb, ts_, fs_ in bool_uses(cb_, s2['p'][0]):
                    if h not in cb_.reach_from([ts_], avoid=[x for x in cb_.returns()]):
                        brk = True
            loops.append((bi, rev, brk))
        shapes[fn] = sorted((rev, brk) for bi, rev, brk in loops)
        ctx.floor('R04.7', len(loops), 1, f'for-loops over the allocation indices in ConciseResourceState::{fn}')
        for bi, rev, brk in loops:
            if brk:
                ctx.ob('R04.7', f'{fn}|early-exit loop scans from the end', rev, 'a loop that stops at the first whole index (fractions == 0) must iterate in reverse: the pool stores whole indices first and the fractional index last', cb_.loc(bi))
    ctx.ob('R04.7', 'add/remove|same loop shapes', shapes['add'] == shapes['remove'], f'add and remove walk the indices the same way (add {shapes["add"]}, remove {shapes["remove"]}): what remove subtracts add gives back', prog.body(CONC + 'add').loc())
    cr = prog.body(POOLP + 'claim_resources')
    ti_ = cr.call_blocks(POOLP + 'take_indices')
    tf_ = cr.call_blocks(POOLP + 'take_fraction_index_or_split')
    ctx.require(ti_ and tf_, 'R04.7: take_indices / take_fraction_index_or_split calls in claim_resources')
    ctx.ob('R04.7', 'claim_resources|whole indices first', all(y in cr.reach_from([x]) and x not in cr.reach_after(y) for x in ti_ for y in tf_),
           'in the single-group pool the whole indices are pushed before the fractional index', cr.loc(ti_[0]))

    # ---- R04.8 label map <-> pool agreement over descriptor kinds
    ctx.rule('R04.8', 'told = held (labels): the descriptor kinds for which ResourceLabelMap::new creates index->label entries are exactly the kinds whose pool indices ResourcePool::new resolves through the label map (List, Groups); Range indices are the raw numbers and must not be relabelled')
    RDK = 'tako::internal::common::resources::descriptor::ResourceDescriptorKind'
    LM = W + 'resources::map::ResourceLabelMap::'
    pn = prog.body(POOLP + 'new')
    ln = prog.body(LM + 'new')
    all_kinds = set(v['name'] for v in prog.enum(RDK)['variants']) if prog.enum(RDK) else set()
    ctx.require(all_kinds, 'R04.8: ResourceDescriptorKind enum not in facts')
    gi_blocks = effect_blocks(prog, pn, Effect('label_get_index', callees=[LM + 'get_index']))
    ctx.floor('R04.8', len(gi_blocks), 1, 'ResourcePool::new resolves indices through ResourceLabelMap::get_index')
    pool_kinds = set()
    for bi in gi_blocks:
        vs = variants_at(pn, RDK, bi)
        pool_kinds |= set(vs) if vs is not None else all_kinds
    # label entries: writes into the `resources` table (IndexMut on it) inside ResourceLabelMap::new
    lw = [bi for bi, t, c in ln.calls() if bi in ln.reachable() and (callee_decl(t) or c or '').endswith('IndexMut::index_mut')]
    lw += [bi for bi, t, c in ln.calls() if bi in ln.reachable() and (c or '').endswith(('Vec::push', 'Map::insert', 'HashMap::insert')) ]
    ctx.floor('R04.8', len(lw), 1, 'label-table writes in ResourceLabelMap::new')
    label_kinds = set()
    for bi in lw:
        vs = variants_at(ln, RDK, bi)
        label_kinds |= set(vs) if vs is not None else all_kinds
    ctx.ob('R04.8', 'label map kinds == pool label-resolved kinds', label_kinds == pool_kinds,
           f'ResourceLabelMap::new creates entries for kinds {sorted(label_kinds)}; ResourcePool::new resolves indices through the label map for kinds {sorted(pool_kinds)} (a kind relabelled on one side only tells a task values it does not hold)', ln.loc(lw[0]))

    # ---- R04.9 a fraction is granted once
    ctx.rule('R04.9', 'a fractional remainder is granted once: after a fraction was handed out (AllocationIndex with a non-constant `fractions`, or try_take_fraction() == true) the outstanding fraction is set to zero before the next group is visited')
    AIDX = 'tako::internal::common::resources::allocation::AllocationIndex'
    AIDX = AIDX if prog.adts.get(AIDX) else next((a for a in prog.adts if a.endswith('::AllocationIndex')), AIDX)
    n9 = 0
    for fn in ('claim_scatter_from_groups', 'claim_compact_from_groups'):
        fb_ = prog.body(POOLP + fn)
        def zero_assigns(locals_):
            out = []
            for bi in fb_.reachable():
                for st in fb_.stmts(bi):
                    if st['k'] == 'a' and st['p'][1] == [] and st['p'][0] in locals_ and st['rv'][0] == 'use' and op_const(st['rv'][1]) is not None and str(op_const(st['rv'][1])).replace('const ', '').startswith('0_'):
                        out.append(bi)
            return out
        # (a) direct grants: AllocationIndex { fractions: <variable> }
        for o_, b_, bi, st in construct_sites(prog, AIDX):
            if b_.path != fb_.path:
                continue
            names = st['rv'][1][3]
            op_ = st['rv'][2][names.index('fractions')]
            l_ = op_local(op_)
            if l_ is None:
                continue     # constant 0: a whole index
            srcv = {x for x in fb_.derived_from(l_, through_mutation=False) if fb_.locals[x][0] == 'u32'}
            hs = loop_headers_containing(fb_, bi)
            za = zero_assigns(srcv)
            n9 += 1
            ok9, _w = must_pass(fb_, [bi], za, exits=hs[:1] + list(fb_.returns())) if hs else (True, None)
            ctx.ob('R04.9', f'{fn}|fraction handed out -> outstanding fraction zeroed', bool(za) and ok9,
                   'after an index with a fraction was pushed the outstanding fraction is set to 0 before the loop continues (otherwise the next group grants the fraction again from a second index)', fb_.loc(bi, st))
        # (b) grants through try_take_fraction
        tfb = fb_.call_blocks(POOLP + 'try_take_fraction')
        if tfb:
            edges_t, _c = guard_edges(fb_, POOLP + 'try_take_fraction', True)
            for cb_ in tfb:
                fl_ = op_local(fb_.term[cb_]['args'][1])
                srcv = {x for x in fb_.derived_from(fl_, through_mutation=False) if fb_.locals[x][0] == 'u32'} if fl_ is not None else set()
                za = zero_assigns(srcv)
                hs = loop_headers_containing(fb_, cb_)
                n9 += 1
                ok9 = bool(za) and bool(edges_t) and all(must_pass(fb_, [tgt], za, exits=hs[:1] + list(fb_.returns()))[0] or tgt in za for sb, tgt in edges_t)
                # the zeroed variable is the one the remaining amount is rebuilt from
                ra_new = [x for x in fb_.call_blocks(lambda c: c.endswith('ResourceAmount::new')) if x in fb_.reach_after(cb_)]
                feeds = any(srcv & fb_.derived_from(op_local(a), through_mutation=False) for x in ra_new for a in fb_.term[x]['args'] if op_local(a) is not None)
                ctx.ob('R04.9', f'{fn}|try_take_fraction succeeded -> outstanding fraction zeroed', ok9 and feeds,
                       'on the true edge of try_take_fraction the fraction variable is set to 0 and the remaining amount is rebuilt from it', fb_.loc(cb_))
    ctx.floor('R04.9', n9, 3, 'fraction grant sites in the group claim functions')

    # ---- R04.10 a request names each resource once
    ctx.rule('R04.10', 'gateway ResourceRequest::validate refuses a request that names a resource twice by comparing every pair of entries (a windows(2) / dedup style adjacent comparison is only complete on a slice sorted in the same function); the allocator claims per entry, so a duplicate entry is granted twice')
    gv = prog.body('tako::gateway::ResourceRequest::validate')
    adj = [bi for bi, t, c in gv.calls() if bi in gv.reachable() and (c or '').endswith(('::windows', '::dedup', '::dedup_by_key', '::dedup_by', '::array_windows', '::is_sorted'))]
    srt = [bi for bi, t, c in gv.calls() if bi in gv.reachable() and ('::sort' in (c or ''))]
    eqs = [bi for bi, t, c in gv.calls() if bi in gv.reachable() and (callee_decl(t) or '').endswith(('PartialEq::eq', 'PartialEq::ne'))] + \
          [bi for bi, t, c in gv.calls() if bi in gv.reachable() and (c or '').endswith(('HashSet::insert', 'Set::insert', 'BTreeSet::insert'))]
    nested = any(len(loop_headers_containing(gv, bi)) >= 2 for bi in eqs) or any((c or '').endswith(('HashSet::insert', 'Set::insert', 'BTreeSet::insert')) for bi, t, c in gv.calls())
    ctx.ob('R04.10', 'ResourceRequest::validate|every pair of entries compared', bool(eqs) and (nested or (adj and srt and all(a_ not in gv.reach_from([0], avoid=srt) for a_ in adj))) and not (adj and not srt),
           'the duplicate test compares each entry with every later one (nested loop or a set); an adjacent-only comparison on the unsorted user order misses non-adjacent duplicates', gv.loc(adj[0]) if adj else gv.loc())

    # ---- R04.11 a timed-out task gives its resources back only after it has ended
    ctx.rule('R04.11', 'handle_task_future: after the time-limit notification was sent the task future is awaited again before its result is used (the task is removed and its allocation released only after the future completed; returning a result right after the notification releases resources a still running process holds)')
    hco = [prog.bodies[p_] for p_ in prog.with_closures(REACT + 'handle_task_future') if prog.bodies[p_].kind == 'coroutine']
    ctx.require(hco, 'R04.11: handle_task_future coroutine')
    hb4 = max(hco, key=lambda b_: b_.n)
    ntf = hb4.call_blocks(lambda c: c.endswith('RunningTask::send_timeout_notification'))
    ctx.floor('R04.11', len(ntf), 1, 'send_timeout_notification in handle_task_future')
    rel4 = [bi for bi, t, c in hb4.calls() if bi in hb4.reachable() and (c or '').endswith(('WorkerState::remove_running_task', 'ResourceAllocator::release_allocation', 'StableMap::remove'))] or list(hb4.returns())
    ys4 = [bi for bi, t, c in hb4.calls() if bi in hb4.reachable() and (c or '').endswith('Future>::poll') and 'Await' in (t.get('x') or '')]
    ok4, _w = must_pass(hb4, ntf, ys4, exits=rel4 + list(hb4.returns()))
    ctx.ob('R04.11', 'handle_task_future|task awaited again after the time-limit notification', bool(ys4) and ok4,
           'every path from send_timeout_notification to the removal of the task / release of its allocation suspends on the task future again', hb4.loc(ntf[0]))

    # ---- R04.12 the per-index fraction entry is updated, never overwritten
    ctx.rule('R04.12', 'ConciseResourceState::{remove,add}_fractions: every store into the free-fraction entry of an index is a read-modify-write of that entry (new = f(old, amount)); a store that does not depend on the old value drops the remainder that was still free there (sum resources accumulate all fractions in index 0)')
    RVP = __import__('hqrules.core', fromlist=['rv_places']).rv_places
    n12 = 0
    for fn in ('remove_fractions', 'add_fractions'):
        fb_ = prog.body(CONC + fn)
        for bi in fb_.reachable():
            for st in fb_.stmts(bi):
                if st['k'] != 'a' or st['p'][1] != ['*'] or fb_.locals[st['p'][0]][0].replace(' ', '') not in ('&mutu32', "&'_mutu32"):
                    continue
                L = st['p'][0]
                # does the stored value derive from a read of (*L)?
                srcs = set()
                for pl in RVP(st['rv']):
                    srcs |= fb_.derived_from(pl[0], through_mutation=False)
                rmw = any(any(pl == [L, ['*']] for pl in RVP(s2['rv'])) for x in srcs for d in fb_.defs().get(x, ()) if d[1] == 'a' for s2 in [d[2]]) or any(pl == [L, ['*']] for pl in RVP(st['rv']))
                n12 += 1
                ctx.ob('R04.12', f'{fn}|fraction entry read-modify-write', rmw, f'{fn}: the value stored into the fraction entry derives from its previous value', fb_.loc(bi, st))
    ctx.floor('R04.12', n12, 3, 'stores into the fraction entry')

    # ---- R04.4
    lt = ts.call_blocks(REACT + 'launch_task')
    ctx.require(lt, 'R04.4: launch_task call')
    la = op_local(ts.term[lt[0]]['args'][3])
    ra_args = [op_local(a) for a in ts.term[rtn[0]]['args']]
    ok = param[0] in ts.derived_from(la, through_mutation=False) and any(param[0] in ts.derived_from(x, through_mutation=False) for x in ra_args if x is not None and ALLOC_TY in ts.locals[x][0])
    ctx.ob('R04.4', 'try_start_task|same allocation launched and stored', ok, 'launch_task and RunningTask::new receive the same allocation', ts.loc(lt[0]))
    ltb = prog.body(REACT + 'launch_task')
    tbc = [(o, b, bi, s) for o, b, bi, s in construct_sites(prog, 'tako::launcher::TaskBuildContext') if b.path == ltb.path]
    okc = False
    pa = [l for l in range(1, ltb.argc + 1) if ALLOC_TY in ltb.locals[l][0]]
    for o, b, bi, s in tbc:
        names = s['rv'][1][3]
        if 'allocation' in names:
            l = op_local(s['rv'][2][names.index('allocation')])
            okc = bool(pa) and l is not None and pa[0] in ltb.derived_from(l)
    ctx.ob('R04.4', 'launch_task|context carries the allocation', okc, 'the TaskBuildContext shown to the launcher carries the allocation parameter', ltb.loc())

    # ---- R04.5
    _c16.admission_equals_grant(ctx, 'R04.5')


def _some_of(b, bi, param):
    for s in b.stmts(bi):
        if s['k'] == 'a' and s['rv'][0] == 'agg' and s['rv'][1][0] == 'adt' and s['rv'][1][2] == 'Some':
            l = op_local(s['rv'][2][0]) if s['rv'][2] else None
            if l is not None and param in b.derived_from(l, through_mutation=False):
                return True
    return False
