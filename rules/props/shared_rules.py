"""Rule instances that are genuine necessary conditions of more than one property (each property claims them under
its own rule id)."""
from hqrules.core import FailClosed, callee_of, callee_decl, op_local, op_place, place_fields, norm, op_const
from hqrules.templates import (effect_blocks, must_pass, state_writes, variants_at, call_sites, construct_sites, Effect,
                               loop_headers_containing, owner_fn, scrutinees, guard_edges, dominated_by_edges,
                               local_field_sources, binops, operand_fields, field_write_sites, field_read_sites, bool_uses)
from .common import *
from . import job_table

PTF = HQ + 'state::State::process_task_failed'
RESTORE = HQ + 'restore::'
LEF = RESTORE + 'StateRestorer::load_event_file'
EP = HQ + 'event::payload::EventPayload'
RTI = RESTORE + 'RestorerTaskInfo'


def terminal_counter_on_every_path(ctx, rule, setters=('set_finished_state', 'set_failed_state', 'set_cancel_state', 'abort_tasks')):
    """every terminal JobTaskState write is followed, on every path, by an increment of the counter of the new state
    (job termination, max-fails and the reported counts all read these counters)."""
    prog = ctx.prog
    n = 0
    for fn in setters:
        b = prog.body(JOB + fn)
        cu = job_table.counter_updates(b)
        for bi, s, v, pl in state_writes(b, JTS):
            cf = job_table.COUNTER_OF.get(v)
            if not cf or v == 'Running':
                continue
            inc = [x[0] for x in cu if x[2] == cf and x[3] == '+']
            ok, _ = must_pass(b, [bi], inc)
            ok = ok or bi in inc
            old = variants_at(b, JTS, bi)
            n += 1
            ctx.ob(rule, f'{fn}|{"+".join(sorted(old)) if old else "?"}->{v}|{cf}+', ok,
                   f'{fn}: a task that becomes {v} (from {sorted(old) if old else old}) is counted in {cf} on every path', b.loc(bi, s))
    ctx.floor(rule, n, 4, 'terminal transitions')


def abort_before_fail(ctx, rule):
    prog = ctx.prog
    ptf = prog.body(PTF)
    ab = ptf.call_blocks(JOB + 'abort_tasks')
    params = set(l for l in range(1, ptf.argc + 1) if ptf.locals[l][0].startswith('alloc::vec::Vec<tako::internal::common::ids::TaskId'))
    ab0 = [x for x in ab if params & ptf.derived_from(op_local(ptf.term[x]['args'][1]))]
    sfs = ptf.call_blocks(JOB + 'set_failed_state')
    ctx.require(ab0 and sfs, f'{rule}: anchors in process_task_failed')
    ctx.ob(rule, 'process_task_failed|abort dependents before failure', sfs[0] not in ptf.reach_from([0], avoid=ab0),
           'abort_tasks(consumers) dominates set_failed_state: the journal must record the dependents as aborted no later than the failure of their dependency '
           '(restore strips dependencies on completed tasks; a cut between the two records would otherwise run the dependents)', ptf.loc(sfs[0]))


def replay_records_missing_entry(ctx, rule, events=(('TasksAborted', 'Aborted'), ('TasksCanceled', 'Canceled'))):
    prog = ctx.prog
    lef = prog.body(LEF)
    for ev, term in events:
        ins = [(bi, s) for o, b, bi, s in construct_sites(prog, RTI) if b.path == lef.path and (variants_at(lef, EP, bi) or set()) == {ev}]
        ctx.ob(rule, f'load_event_file|{ev}|missing entry recorded', bool(ins),
               f'the {ev} replay arm inserts a RestorerTaskInfo for a task without a prior record (a task that was never started has no entry; without the insert it is resubmitted after a restart)',
               lef.loc(ins[0][0]) if ins else lef.loc())
        okstate = False
        for bi, s in ins:
            names = s['rv'][1][3]
            l = op_local(s['rv'][2][names.index('state')])
            sd = lef.single_def(l)
            if sd and sd[1] == 'a' and sd[2]['rv'][0] == 'agg' and sd[2]['rv'][1][2] == term:
                okstate = True
        if ins:
            ctx.ob(rule, f'load_event_file|{ev}|state {term}', okstate, f'the inserted record is {term}', lef.loc(ins[0][0]))


def max_fails_ids(ctx, rule):
    """ids aborted in the job on the max-fails path == ids returned to tako for cancellation."""
    prog = ctx.prog
    b = prog.body(PTF)
    cmp_ = [(bi, s, op, a, c) for bi, s, op, a, c in binops(b) if op in ('Gt', 'Ge', 'Lt', 'Le') and
            'n_failed_tasks' in operand_fields(b, a) | operand_fields(b, c)]
    ctx.require(len(cmp_) == 1, f'{rule}: expected one comparison on n_failed_tasks')
    bi, s, op, a, c = cmp_[0]
    uses = bool_uses(b, s['p'][0])
    t_edges = set((sb, ts) for sb, ts, fs in uses)
    nf = b.call_blocks(JOB + 'non_finished_task_ids')
    ab = b.call_blocks(JOB + 'abort_tasks')
    nf_t = [x for x in nf if dominated_by_edges(b, x, t_edges, False)]
    ab_t = [x for x in ab if dominated_by_edges(b, x, t_edges, False)]
    ctx.ob(rule, 'max-fails|single read of non_finished_task_ids', len(nf_t) == 1 and len(nf) == 1,
           f'exactly one non_finished_task_ids() read on the limit-exceeded path (observed {len(nf)}); a read taken after the abort is empty, so tako would not be told to cancel', b.loc(nf[0]) if nf else b.loc())
    if nf_t and ab_t:
        idl = b.term[nf_t[0]]['d'][0]
        ctx.ob(rule, 'max-fails|read before abort', ab_t[0] in b.reach_from([nf_t[0]]) and nf_t[0] not in b.reach_after(ab_t[0]), 'the id list is read before the tasks are aborted', b.loc(nf_t[0]))
        okr = False
        for x in b.reachable():
            for st in b.stmts(x):
                if st['k'] == 'a' and st['p'] == [0, []] and st['rv'][0] == 'use' and op_local(st['rv'][1]) is not None \
                        and idl in b.derived_from(op_local(st['rv'][1])) and dominated_by_edges(b, x, t_edges, False):
                    okr = True
        ctx.ob(rule, 'max-fails|aborted ids returned to tako', okr, 'the vector returned to tako on the limit-exceeded path is the one that was aborted', b.loc(ab_t[0]))
    else:
        ctx.ob(rule, 'max-fails|abort on the limit path', False, 'the limit-exceeded path reads the unfinished ids and aborts them', b.loc())


def error_result_reaches_cancel(ctx, rule):
    """the ids returned by EventProcessor::on_task_error reach on_cancel_tasks on every path: inside task_failed, or
    task_failed returns them and every caller cancels them."""
    prog = ctx.prog
    tf = prog.body(REACTOR + 'task_failed')
    oe = [x for x in effect_blocks(prog, tf, E_EV_ERROR) if (callee_decl(tf.term[x]) == EVP + 'on_task_error' or callee_of(tf.term[x]) == EVP + 'on_task_error')]
    ctx.require(oe, f'{rule}: on_task_error not called in task_failed')
    rl = tf.term[oe[0]]['d'][0]
    oc = tf.call_blocks(REACTOR + 'on_cancel_tasks')
    if oc:
        al = op_local(tf.term[oc[0]]['args'][2])
        ctx.ob(rule, 'task_failed|result -> on_cancel_tasks', rl in tf.derived_from(al), 'the ids returned by on_task_error are passed to on_cancel_tasks', tf.loc(oc[0]))
        edges, _ = guard_edges(tf, 'alloc::vec::Vec::is_empty', False)
        # every path from on_task_error to return passes on_cancel_tasks or the is_empty==true edge
        e_true, _ = guard_edges(tf, 'alloc::vec::Vec::is_empty', True)
        r = tf.reach_after(oe[0], avoid=oc, avoid_edges=e_true)
        ctx.ob(rule, 'task_failed|cancel unless empty', not any(x in r for x in tf.returns()), 'on_cancel_tasks runs on every path on which the returned list is non-empty', tf.loc(oc[0]))
        return
    # delegated to callers
    returned = rl == 0 or any(st['k'] == 'a' and st['p'] == [0, []] and st['rv'][0] == 'use' and op_local(st['rv'][1]) is not None and rl in tf.derived_from(op_local(st['rv'][1]))
                              for x in tf.reachable() for st in tf.stmts(x))
    ctx.ob(rule, 'task_failed|result returned to callers', returned, 'task_failed does not cancel itself, so it must return the ids of on_task_error', tf.loc(oe[0]))
    for o, b, bi in call_sites(prog, tf.path):
        if is_test_util(o):
            continue
        dl = b.term[bi]['d'][0]
        ocs = [x for x in b.call_blocks(REACTOR + 'on_cancel_tasks') if dl in b.derived_from(op_local(b.term[x]['args'][2])) and x in b.reach_after(bi)]
        ctx.ob(rule, f'{o.split("::")[-1]}|cancels ids returned by task_failed', bool(ocs),
               f'{o.split("::")[-1]} must hand the ids returned by task_failed to on_cancel_tasks (otherwise a max-fails abort is announced but the core keeps and runs the tasks)', b.loc(bi))


def compute_builder_index_reset(ctx, rule):
    prog = ctx.prog
    cmo = prog.body(T + 'server::task::ComputeTasksBuilder::create_message_on_overflow')
    takes = [bi for bi in cmo.call_blocks('core::mem::take') if 'shared_data' in local_field_sources(cmo, op_local(cmo.term[bi]['args'][0]))]
    clears = [bi for bi in cmo.call_blocks(lambda c: c.endswith('::clear')) if 'configuration_index' in local_field_sources(cmo, op_local(cmo.term[bi]['args'][0]))]
    ctx.require(takes, f'{rule}: mem::take(shared_data) missing')
    ok, wit = must_pass(cmo, takes, clears)
    ctx.ob(rule, 'create_message_on_overflow|take shared_data -> clear configuration_index', ok,
           'configuration_index (indices into shared_data) is cleared whenever shared_data is taken; a stale index gives a task of the next message another task\'s data or an out-of-bounds index that panics the worker', cmo.loc(takes[0]))


def listener_ids_unique(ctx, rule):
    prog = ctx.prog
    rl = prog.body(STREAMER + 'register_listener')
    uses_len = any(c in ('alloc::vec::Vec::len',) for bi, t, c in rl.calls() if bi in rl.reachable())
    uses_max = any(c and (c.endswith('Iterator::max') or c.endswith('::max')) for p in prog.with_closures(rl.path) for bi, t, c in prog.bodies[p].calls())
    ctx.ob(rule, 'register_listener|fresh id', uses_max and not uses_len,
           'listener ids are max(existing)+1; a length-based id collides with a live listener after one leaves (the wrong listener is unregistered and a later unregister unwraps None)', rl.loc())


def retracting_scan_whole_map(ctx, rule):
    """on_remove_worker: tasks in Retracting{lost worker} are in no per-worker index (retract_tasks removed them from the
    worker's backlog set), so the loop that re-homes them has to range over the whole task map."""
    from hqrules.templates import state_writes, variants_at, loop_headers_containing
    from hqrules.core import callee_decl, callee_of, op_local
    prog = ctx.prog
    orw = prog.body(REACTOR + 'on_remove_worker')
    TM = T + 'server::taskmap::TaskMap::'
    whole = [bi for bi in orw.call_blocks({TM + 'tasks_mut', TM + 'tasks', TM + 'task_ids'})]
    wd = {orw.term[bi]['d'][0] for bi in whole}
    n = 0
    for bi, s_, v, pl in state_writes(orw, TRS):
        old = variants_at(orw, TRS, bi)
        if not old or set(old) != {'Retracting'}:
            continue
        n += 1
        hs = loop_headers_containing(orw, bi)
        ok = False
        if hs:
            for nb, t, c in orw.calls():
                if nb in orw.reachable() and (callee_decl(t) or c or '').endswith('Iterator::next') and hs[0] in loop_headers_containing(orw, nb) and orw.dominates(nb, bi):
                    l = op_local(t['args'][0])
                    if l is not None and wd & orw.derived_from(l):
                        ok = True
        ctx.ob(rule, f'on_remove_worker|Retracting->{v}|found by a whole-map scan', ok,
               'the loop that re-homes tasks being retracted from the lost worker iterates over the whole TaskMap (tasks_mut / tasks / task_ids): a Retracting task without a redirect entry is reachable through no other index, and left behind it names a dead worker in every later message', orw.loc(bi, s_))
    ctx.floor(rule, n, 1, 'state writes from Retracting in on_remove_worker')


def replay_batch_lookup_per_id(ctx, rule, events=('TasksAborted', 'TasksCanceled')):
    """A batched record may span jobs (prune filters its ids per job): the replay looks the job up for every id."""
    from hqrules.templates import same_iteration_has, local_field_sources, loop_headers_containing
    prog = ctx.prog
    lef = prog.body(LEF)
    HGET = ('HashMap::get_mut', 'HashMap::get', 'StateRestorer::get_job_mut')
    look = []
    for bi, t, c in lef.calls():
        if bi in lef.reachable() and (c or '').endswith(HGET):
            l = op_local(t['args'][0])
            fs = local_field_sources(lef, l, through_mutation=False) if l is not None else set()
            if (c or '').endswith('get_job_mut') or ('jobs' in fs and 'tasks' not in fs):
                look.append(bi)
    for ev in events:
        sites = [bi for o, b, bi, s in construct_sites(prog, RTI) if b.path == lef.path and (variants_at(lef, EP, bi) or set()) == {ev}]
        sites += [bi for bi, st, pl, fs in lef.field_writes() if fs and fs[-1][0] == 'state' and fs[-1][1] == RTI and (variants_at(lef, EP, bi) or set()) == {ev}]
        sites = [x for x in sorted(set(sites)) if loop_headers_containing(lef, x)]
        ctx.floor(rule, len(sites), 1, f'task-record writes in the {ev} replay loop')
        ok = all(same_iteration_has(lef, x, look) and x not in lef.reach_from(loop_headers_containing(lef, x)[:1], avoid=look) for x in sites)
        ctx.ob(rule, f'load_event_file|{ev}|job looked up per id', ok,
               f'inside the loop over the ids of a {ev} batch the job is looked up for each id (a lookup hoisted out of the loop applies every id to the job of the first one; pruning removes the ids of completed jobs, so the first id - and the restored state - changes)', lef.loc(sites[0]))


def retract_response_leaves_retracting(ctx, rule):
    """on_retract_response: once the redirect entry of a confirmed retraction was consumed, the task leaves the Retracting
    state on every path of the iteration (Assigned on the redirect target, or Waiting when nobody claimed it)."""
    from hqrules.templates import loop_headers_containing, local_field_sources, construct_sites, must_pass
    from hqrules.core import op_local
    prog = ctx.prog
    b = prog.body(REACTOR + 'on_retract_response')
    rem = [bi for bi, t, c in b.calls() if bi in b.reachable() and (c or '').endswith(('HashMap::remove', 'Map::remove')) and 'redirects' in local_field_sources(b, op_local(t['args'][0]), through_mutation=False)]
    ctx.floor(rule, len(rem), 1, 'redirects.remove in on_retract_response')
    leave = [bi for o, bb, bi, s_ in construct_sites(prog, TRS) if bb.path == b.path and s_['rv'][1][2] in ('Waiting', 'Assigned')]
    hs = loop_headers_containing(b, rem[0])
    ok, wit = must_pass(b, rem, leave, exits=hs[:1] + list(b.returns()))
    ctx.ob(rule, 'on_retract_response|confirmed retraction leaves Retracting', bool(leave) and ok,
           'after redirects.remove(task) every path of the iteration writes Assigned (redirect) or Waiting (no redirect); a task left in Retracting after its source worker confirmed is never dispatched again', b.loc(rem[0]))
    vs = set(s_['rv'][1][2] for o, bb, bi, s_ in construct_sites(prog, TRS) if bb.path == b.path)
    ctx.ob(rule, 'on_retract_response|both outcomes', {'Waiting', 'Assigned'} <= vs, f'on_retract_response writes Assigned and Waiting (observed {sorted(vs)})', b.loc())
