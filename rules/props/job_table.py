"""JobTaskState transition / counter table extracted from hyperqueue::server::job (shared by C01, C13, C14)."""
from hqrules.core import FailClosed, callee_of, op_local, op_place, place_fields, norm, op_const
from hqrules.templates import (state_writes, variants_at, binops, must_pass, loop_headers_containing, construct_sites,
                               owner_fn)
from .common import *

COUNTERS = HQ + 'job::JobTaskCounters'
COUNTER_OF = {'Running': 'n_running_tasks', 'Finished': 'n_finished_tasks', 'Failed': 'n_failed_tasks',
              'Canceled': 'n_canceled_tasks', 'Aborted': 'n_aborted_tasks'}
TERMINAL = {'Finished', 'Failed', 'Canceled', 'Aborted'}
SETTERS = ['set_running_state', 'set_finished_state', 'set_waiting_state', 'set_failed_state', 'set_cancel_state', 'abort_tasks']


def counter_updates(body):
    """[(block, stmt, field, sign, amount)] for writes to JobTaskCounters fields; amount = 'const 1' or 'len'."""
    out = []
    for bi in body.reachable():
        for s in body.stmts(bi):
            if s['k'] != 'a' or not s['p'][1]:
                continue
            fs = place_fields(s['p'])
            if not fs or fs[-1][1] != COUNTERS:
                continue
            field = fs[-1][0]
            rv = s['rv']
            sign, amount = None, None
            src = None
            if rv[0] == 'bin':
                src = rv
            elif rv[0] == 'use' and op_place(rv[1]) is not None:
                l = op_place(rv[1])[0]
                sd = body.single_def(l)
                if sd and sd[1] == 'a' and sd[2]['rv'][0] == 'bin':
                    src = sd[2]['rv']
            if src is not None:
                op = src[1]
                if op.startswith('Add'):
                    sign = '+'
                elif op.startswith('Sub'):
                    sign = '-'
                k = src[3]
                if k[0] == 'k':
                    amount = k[1].replace('const ', '')
                else:
                    amount = 'expr'
            out.append((bi, s, field, sign, amount))
    return out


def job_state_writes(prog):
    """All JobTaskState writes in non-test, non-serde bodies: (owner, body, block, stmt, new, old variants)."""
    out = []
    for p, b in prog.bodies.items():
        if not p.startswith('hyperqueue::') or '::_::' in p or is_test_util(p):
            continue
        ws = state_writes(b, JTS)
        for bi, s, v, pl in ws:
            fs = place_fields(pl)
            if not fs or fs[-1][0] != 'state':
                continue
            out.append((owner_fn(prog, p), b, bi, s, v, variants_at(b, JTS, bi)))
    return out
