"""C07 — worker loss: running tasks are restarted or failed per crash limit, nothing else."""
from hqrules.core import FailClosed, callee_of, callee_decl, op_local, op_place, place_fields, norm, op_const
from hqrules.templates import (effect_blocks, must_pass, state_writes, variants_at, call_sites, construct_sites,
                               field_write_sites, field_read_sites, same_iteration_has, binops, operand_fields,
                               guard_edges, dominated_by_edges, local_field_sources, loop_headers_containing, Effect)
from .common import *

EXPLANATION = ('Structural necessary conditions of C07 in on_remove_worker / Task::increment_crash_counter / restore: the loss is '
               'announced before any penalty, the crash counter is bumped only on a failure reason and only for tasks collected as '
               'running, the limit predicate has the documented shape per CrashLimit variant, the running list only receives tasks '
               'whose start was announced, and the crash counter is carried through the journal replay and the restore adjust map.')
NOT_DECIDED = ['exact equality of live and restored crash counts over all histories (D15: restore counts non-root multi-node worker loss)',
               'that a re-queued task is eventually re-run (liveness)']
RELATED = {'C10': ['R10.9~^WorkerLost']}
ASSUMPTIONS = ['LostWorkerReason classification is done by the callers of on_remove_worker (rpc.rs); R07.9 covers the stop-reason override']

CRASH = 'tako::gateway::CrashLimit'
LWR = 'tako::gateway::LostWorkerReason'
INC_CC = TASK + '::increment_crash_counter'
IS_FAILURE = LWR + '::is_failure'


def run(ctx):
    prog = ctx.prog
    ctx.rule('R07.1', 'on_remove_worker: on_worker_lost is announced before any penalty task_failed')
    ctx.rule('R07.2', 'increment_crash_counter is called only in on_remove_worker, on the true edge of reason.is_failure(); is_failure == {ConnectionLost, HeartbeatLost}')
    ctx.rule('R07.3', 'increment_crash_counter: +1 then NeverRestart->true, Unlimited->false, MaxCrashes(c)-> crash_counter >= c')
    ctx.rule('R07.4', 'the running list handed to on_worker_lost receives tasks only under states whose start was announced (Running)')
    ctx.rule('R07.5', 'penalties (task_failed / crash counter) are applied only to ids taken from the running list; NeverRestart fails regardless of the reason')
    ctx.rule('R07.6', 'restore: the TaskStarted replay carries the crash counter over from the previous record of the task')
    ctx.rule('R07.7', 'restore: the WorkerLost replay bumps counters only under the same is_failure predicate, for Running tasks on that worker')
    ctx.rule('R07.8', 'restore plumbing: RestorerTaskInfo.crash_counter -> adjust map -> Task.crash_counter')
    ctx.rule('R07.9', 'worker_rpc_loop: a recorded stop reason overrides the observed disconnect reason on every path to on_remove_worker')

    orw = prog.body(REACTOR + 'on_remove_worker')
    lost = effect_blocks(prog, orw, E_EV_LOST)
    okl, _w = must_pass(orw, [0], lost) if lost else (False, None)
    ctx.ob('R07.1', 'on_remove_worker|announces the loss', okl, 'on_remove_worker announces the loss (on_worker_lost) on every path', orw.loc())
    tf = orw.call_blocks(REACTOR + 'task_failed')
    ctx.floor('R07.1', len(tf), 1, 'task_failed calls in on_remove_worker')
    for b in tf:
        ok = b not in orw.reach_from([0], avoid=lost)
        ctx.ob('R07.1', 'on_remove_worker|on_worker_lost before task_failed', ok, 'the loss announcement dominates the penalty', orw.loc(b))

    # ---- R07.2
    sites = [(o, b, bi) for o, b, bi in call_sites(prog, INC_CC) if not is_test_util(o)]
    ctx.floor('R07.2', len(sites), 1, 'call sites of increment_crash_counter')
    for o, b, bi in sites:
        ctx.ob('R07.2', f'increment_crash_counter caller|{o.split("::")[-1]}', o == orw.path, 'crash counter bumped only by on_remove_worker', b.loc(bi))
        if b.path == orw.path:
            edges, calls = guard_edges(orw, IS_FAILURE, True)
            ctx.ob('R07.2', 'increment_crash_counter|guarded by is_failure', dominated_by_edges(orw, bi, edges),
                   'increment_crash_counter (which has a side effect) runs only after reason.is_failure() returned true', orw.loc(bi),
                   dict(is_failure_calls=[orw.loc(c) for c in calls]))
    pt = prog.predicate_table(IS_FAILURE)
    ctx.ob('R07.2', 'is_failure table', pt is not None and set(pt['true']) == {'ConnectionLost', 'HeartbeatLost'},
           f'LostWorkerReason::is_failure is true exactly on ConnectionLost, HeartbeatLost (observed {sorted(pt["true"]) if pt else None})',
           prog.body(IS_FAILURE).loc())
    # direct writers of crash_counter
    wr = set(o for o, b, bi, st, k in field_write_sites(prog, TASK, 'crash_counter') if not is_test_util(o))
    for w in sorted(wr):
        ctx.ob('R07.2', f'write crash_counter|{w.split("::")[-1]}', w == INC_CC or w.endswith('::handle_new_tasks'),
               f'Task.crash_counter written in {w}', prog.bodies[w].loc())

    # ---- R07.3
    inc = prog.body(INC_CC)
    add1 = [bi for bi, s, op, a, b_ in binops(inc) if op.startswith('Add') and any(o[0] == 'k' and '1_' in o[1] for o in (a, b_))]
    ctx.ob('R07.3', 'increment_crash_counter|+1', bool(add1), 'crash_counter is increased by the constant 1', inc.loc())
    flows = inc.variant_flow(CRASH)
    ctx.require(len(flows) == 1, 'R07.3: CrashLimit scrutinee not found in increment_crash_counter')
    (key, flow), = flows.items()
    res = {}
    for bi in inc.reachable():
        for s in inc.stmts(bi):
            if s['k'] == 'a' and s['p'] == [0, []]:
                vs = flow.get(bi, frozenset())
                rv = s['rv']
                if rv[0] == 'use' and rv[1][0] == 'k':
                    for v in vs:
                        res.setdefault(v, set()).add(rv[1][1].replace('const ', ''))
                else:
                    # comparison result
                    l = op_local(rv[1]) if rv[0] == 'use' else None
                    opn = rv[1] if rv[0] == 'bin' else None
                    if l is not None:
                        for bj, s2, op, a, b_ in binops(inc):
                            if s2['p'][0] == l:
                                opn = op
                    for v in vs:
                        res.setdefault(v, set()).add(f'cmp:{opn}')
    ctx.ob('R07.3', 'NeverRestart->true', res.get('NeverRestart') == {'true'}, f'NeverRestart always fails (observed {res.get("NeverRestart")})', inc.loc())
    ctx.ob('R07.3', 'Unlimited->false', res.get('Unlimited') == {'false'}, f'Unlimited never fails (observed {res.get("Unlimited")})', inc.loc())
    ctx.ob('R07.3', 'MaxCrashes->Ge', res.get('MaxCrashes') == {'cmp:Ge'}, f'MaxCrashes(c) fails iff crash_counter >= c (observed {res.get("MaxCrashes")})', inc.loc())
    for bi, s, op, a, b_ in binops(inc):
        if op == 'Ge':
            ctx.ob('R07.3', 'Ge operands', 'crash_counter' in operand_fields(inc, a), 'left operand of >= is the crash counter', inc.loc(bi, s))
            # the +1 dominates the comparison
            ctx.ob('R07.3', '+1 before compare', all(bi not in inc.reach_from([0], avoid=add1) for _ in [0]) if add1 else False,
                   'the counter is incremented before it is compared', inc.loc(bi, s))

    # ---- R07.4
    # the local passed to on_worker_lost
    rl = None
    for lb in lost:
        t = orw.term[lb]
        if callee_decl(t) == EVP + 'on_worker_lost' or callee_of(t) == EVP + 'on_worker_lost':
            srcs = orw.derived_from(op_local(t['args'][2]))
            cands = [l for l in srcs if orw.locals[l][0].startswith('alloc::vec::Vec<tako::internal::common::ids::TaskId')]
            rl = cands
    ctx.require(rl, 'R07.4: running list local not found')
    pushes = [bi for bi, t, c in orw.calls() if c == 'alloc::vec::Vec::push' and bi in orw.reachable()
              and set(rl) & orw.derived_from(op_local(t['args'][0]))]
    ctx.floor('R07.4', len(pushes), 1, 'pushes into the running list')
    # announced states: variants V such that every write of V (outside tests) is followed by on_task_started
    announced = set()
    for v in prog.variants(TRS):
        cs = [(o, b, bi) for o, b, bi, s in construct_sites(prog, TRS, v) if not is_test_util(o)]
        if cs and all(must_pass(b, [bi], effect_blocks(prog, b, E_EV_STARTED))[0] for o, b, bi in cs):
            announced.add(v)
    ctx.note('announced_states', sorted(announced))
    ctx.ob('R07.4', 'announced states derived', announced == {'Running'}, f'states whose every construction is followed by on_task_started: {sorted(announced)}', None)
    for pb in pushes:
        vs = variants_at(orw, TRS, pb)
        vt = '+'.join(sorted(vs)) if vs else 'unknown'
        ctx.ob('R07.4', f'on_remove_worker|running push|old={vt}', vs is not None and set(vs) <= announced,
               f'a task is reported as running on the lost worker only if its start was announced (old state {vt}, announced {sorted(announced)})',
               orw.loc(pb))

    # ---- R07.11 completeness of the running list
    ctx.rule('R07.11', 'every task that leaves a running state (Running, RunningMultiNode on its root) because its worker was lost is put on the running list in the same iteration: the list drives the crash counter, the never-restart failure and the journal')
    from hqrules.templates import same_iteration_has
    n11 = 0
    for bi, s_, v, pl in state_writes(orw, TRS):
        if v != 'Waiting':
            continue
        old = variants_at(orw, TRS, bi)
        if old and set(old) <= {'Running', 'RunningMultiNode'}:
            n11 += 1
            ctx.ob('R07.11', f'on_remove_worker|{"+".join(sorted(old))}->Waiting|on the running list', same_iteration_has(orw, bi, pushes),
                   f'a task re-queued from {sorted(old)} is recorded as having been running on the lost worker', orw.loc(bi, s_))
    ctx.floor('R07.11', n11, 1, 're-queue writes from a running state in on_remove_worker')

    # ---- R07.5
    for b in tf + [bi for o, bb, bi in sites if bb.path == orw.path]:
        t = orw.term[b]
        # the task id / task receiver derives from the running list
        locs = [op_local(a) for a in t['args'] if op_local(a) is not None]
        ok = any(set(rl) & orw.derived_from(l) for l in locs)
        ctx.ob('R07.5', f'on_remove_worker|{callee_of(t).split("::")[-1]} on running list', ok,
               'the penalised task comes from the running list', orw.loc(b))
    edges, _ = guard_edges(orw, IS_FAILURE, True)
    free = [b for b in tf if not dominated_by_edges(orw, b, edges)]
    ctx.ob('R07.5', 'NeverRestart branch ignores reason', len(free) == 1, 'exactly one task_failed call (the NeverRestart branch) is not guarded by is_failure', orw.loc(free[0]) if free else orw.loc())

    # ---- R07.6 / R07.7 / R07.8
    lef = prog.body(HQ + 'restore::StateRestorer::load_event_file')
    RTI = HQ + 'restore::RestorerTaskInfo'
    EP = HQ + 'event::payload::EventPayload'
    n = 0
    for o, b, bi, s in construct_sites(prog, RTI):
        if b.path != lef.path:
            continue
        names = s['rv'][1][3]
        vs = variants_at(lef, EP, bi)
        if vs and set(vs) == {'TaskStarted'}:
            n += 1
            o_ = s['rv'][2][names.index('crash_counter')]
            carried = False
            if o_[0] != 'k':
                carried = 'crash_counter' in local_field_sources(lef, op_local(o_)) or 'crash_counter' in [f for f, a, v in place_fields(op_place(o_))]
            ctx.ob('R07.6', 'load_event_file|TaskStarted|crash_counter carried', carried,
                   'the RestorerTaskInfo written by the TaskStarted arm takes crash_counter from the previous entry (a constant resets the count on every restart of the task)',
                   lef.loc(bi, s), dict(operand=o_[:2]))
    ctx.floor('R07.6', n, 1, 'RestorerTaskInfo constructed under TaskStarted')
    icc = effect_blocks(prog, lef, Effect('restore.icc', callees={HQ + 'restore::RestorerJob::increase_crash_counters'}))
    ctx.floor('R07.7', len(icc), 1, 'increase_crash_counters call')
    edges, _ = guard_edges(lef, IS_FAILURE, True)
    for bi in icc:
        vs = variants_at(lef, EP, bi)
        ctx.ob('R07.7', 'load_event_file|WorkerLost|is_failure', dominated_by_edges(lef, bi, edges) and vs and set(vs) == {'WorkerLost'},
               'replay bumps crash counters only for WorkerLost with a failure reason (same predicate as the live path)', lef.loc(bi))
    icb = prog.body(HQ + 'restore::RestorerJob::increase_crash_counters')
    adds = [bi for bi, s, op, a, b_ in binops(icb) if op.startswith('Add')]
    okv = all((variants_at(icb, JTS, bi) or set()) <= {'Running'} for bi in adds) and bool(adds)
    ctx.ob('R07.7', 'increase_crash_counters|Running only', okv, 'replay bumps only tasks that are Running (on that worker)', icb.loc())
    rj = prog.body(HQ + 'restore::RestorerJob::restore_job')
    ins = [bi for bi, t, c in rj.calls() if c in HASH_INSERT and bi in rj.reachable()
           and 'adjust_instance_id_and_crash_counters' in local_field_sources(rj, op_local(t['args'][0]))]
    ok = False
    for bi in ins:
        t = rj.term[bi]
        v = op_local(t['args'][2]) if len(t['args']) > 2 else None
        if v is not None and 'crash_counter' in local_field_sources(rj, v):
            ok = True
    ctx.ob('R07.8', 'restore_job|adjust <- crash_counter', ok, 'the adjust entry carries RestorerTaskInfo.crash_counter', rj.loc(ins[0]) if ins else rj.loc())
    readers = set(o for o, b, bi, st in field_read_sites(prog, 'tako::gateway::TaskSubmit', 'adjust_instance_id_and_crash_counters') if not is_test_util(o))
    both = readers & wr
    ctx.ob('R07.8', 'adjust -> Task.crash_counter', bool(both), f'a reader of the adjust map writes Task.crash_counter ({sorted(x.split("::")[-1] for x in both)})', None)

    # ---- R07.10: typestate of the worker's server channel: nothing is sent after the sender was dropped
    ctx.rule('R07.10', 'worker: no message to the server after WorkerComm::drop_sender (the final Stop(reason) would be lost and the loss classified as a failure); run_worker sends the stop reason before closing')
    WC = T + 'worker::comm::WorkerComm::'
    nds = 0
    for p_, b_ in prog.bodies.items():
        if not p_.startswith(T + 'worker::') or is_test_util(p_):
            continue
        ds = b_.call_blocks(WC + 'drop_sender')
        if not ds:
            continue
        nds += 1
        after = b_.reach_after(ds[0]) if len(ds) == 1 else set().union(*[b_.reach_after(x) for x in ds])
        late = [x for x in b_.call_blocks(WC + 'send_message_to_server') if x in after]
        ctx.ob('R07.10', f'{p_.split("::")[-2] if p_.endswith("}") else p_.split("::")[-1]}|no send after drop_sender', not late,
               'send_message_to_server is not reachable after drop_sender', b_.loc(late[0]) if late else b_.loc(ds[0]))
        sends = [x for x in b_.call_blocks(WC + 'send_message_to_server') if any(d in b_.reach_after(x) for d in ds)]
        ctx.ob('R07.10', f'{p_.split("::")[-2] if p_.endswith("}") else p_.split("::")[-1]}|stop reason sent before closing', bool(sends),
               'the graceful-exit path sends its final message to the server and only then drops the sender', b_.loc(ds[0]))
    ctx.floor('R07.10', nds, 1, 'bodies that drop the server sender')
    # ---- R07.9: rpc.rs stop-reason override
    rpc = [b for b in prog.find_bodies(r'^tako::internal::server::rpc::worker_rpc_loop(::\{closure#\d+\})*$')]
    ctx.require(rpc, 'R07.9: worker_rpc_loop not found')
    found = 0
    for b in rpc:
        for bi in b.call_blocks(REACTOR + 'on_remove_worker'):
            found += 1
            t = b.term[bi]
            rl_ = op_local(t['args'][3]) if len(t['args']) > 3 else None
            srcf = local_field_sources(b, rl_) if rl_ is not None else set()
            # the reason derives from the worker's recorded stop reason
            dep = 'stop_reason' in srcf
            ctx.ob('R07.9', 'worker_rpc_loop|reason derives from stop_reason', dep,
                   'the reason handed to on_remove_worker depends on the recorded stop reason of the worker', b.loc(bi))
            # the override is unconditional: no branch between the stop_reason read and the call depends on the observed reason
            reads = [bj for o, bb, bj, st in field_read_sites(prog, T + 'server::worker::Worker', 'stop_reason') if bb.path == b.path]
            region = (b.reach_from(reads) & b.coreach([bi])) if reads else set()
            stop_derived = set()
            for x in range(len(b.locals)):
                if 'stop_reason' in local_field_sources(b, x):
                    stop_derived.add(x)
            bad = []
            for x in sorted(region):
                tt = b.term[x]
                if tt and tt['k'] == 'sw':
                    l = op_local(tt['op'])
                    if l is None:
                        continue
                    for y in b.derived_from(l):
                        ty = b.locals[y][0]
                        if ty.replace('&', '').strip() == LWR and y not in stop_derived:
                            bad.append(x)
                            break
            ctx.ob('R07.9', 'worker_rpc_loop|stop_reason override unconditional', bool(reads) and not bad,
                   'no branch between reading the recorded stop reason and on_remove_worker depends on the observed disconnect reason (a requested stop must win over a later heartbeat/connection loss)',
                   b.loc(bad[0]) if bad else (b.loc(reads[0]) if reads else b.loc(bi)))
    ctx.floor('R07.9', found, 1, 'on_remove_worker call in worker_rpc_loop')
