"""Shared anchors for the journal properties (C10, C11, C12)."""
from hqrules.core import FailClosed, callee_of, callee_decl, op_local, op_place, place_fields, norm, rv_places
from hqrules.templates import (construct_sites, variants_at, owner_fn, field_write_sites, local_field_sources, effect_blocks, Effect)
from .common import *

RESTORE = HQ + 'restore::'
SR = RESTORE + 'StateRestorer'
LEF = SR + '::load_event_file'
EP = HQ + 'event::payload::EventPayload'
JW = HQ + 'event::journal::write::JournalWriter::'
JR = HQ + 'event::journal::read::JournalReader'
PRUNE = HQ + 'event::journal::prune::prune_journal'
STREAM = HQ + 'event::journal::stream::'
BOOT = HQ + 'bootstrap::'

DOMAINS = {   # StateRestorer fields -> domain
    'jobs': 'job', 'queues': 'queue', 'queue_to_worker_resources': 'queue', 'allocation_to_queue_id': 'queue',
    'max_job_id': 'meta', 'max_worker_id': 'meta', 'max_queue_id': 'meta', 'server_uid': 'meta', 'truncate_size': 'meta',
}


def coroutine_of(prog, path):
    cs = [prog.bodies[p] for p in prog.with_closures(path) if prog.bodies[p].kind == 'coroutine']
    if not cs:
        raise FailClosed(f'anchor missing: coroutine body of {path}')
    return max(cs, key=lambda b: b.n)


def replay_writes(prog):
    """{EventPayload variant: set(StateRestorer fields written or mutably borrowed in its replay arm, transitively)}"""
    lef = prog.body(LEF)
    out = {v: set() for v in prog.variants(EP)}
    # per-block: fields of StateRestorer touched (write / &mut / call on a place derived from the field)
    helper_writes = {}   # callee -> fields of StateRestorer it writes (for &mut self helpers)
    for p, b in prog.bodies.items():
        if not p.startswith(SR + '::') and not p.startswith(RESTORE + 'RestorerJob::'):
            continue
        fs = set()
        for bi, st, pl, fields in b.field_writes():
            for n, a, v in fields:
                if a == SR:
                    fs.add(n)
        for bi in b.reachable():
            for s in b.stmts(bi):
                if s['k'] == 'a' and s['rv'][0] == 'ref' and s['rv'][1] == 'mut':
                    for n, a, v in place_fields(s['rv'][2]):
                        if a == SR:
                            fs.add(n)
        helper_writes[p] = fs
    for bi in lef.reachable():
        vs = variants_at(lef, EP, bi)
        if not vs or len(vs) == len(out):
            continue
        fields = set()
        for s in lef.stmts(bi):
            if s['k'] != 'a':
                continue
            if s['p'][1]:
                for n, a, v in place_fields(s['p']):
                    if a == SR:
                        fields.add(n)
            if s['rv'][0] == 'ref' and s['rv'][1] == 'mut':
                for n, a, v in place_fields(s['rv'][2]):
                    if a == SR:
                        fields.add(n)
        t = lef.term[bi]
        if t and t['k'] == 'call':
            c = callee_of(t)
            if c in helper_writes and c != LEF:
                fields |= helper_writes[c]
            if t['d'][1]:
                for n, a, v in place_fields(t['d']):
                    if a == SR:
                        fields.add(n)
        for v in vs:
            out[v] |= fields
    return out
