"""C20 — connections are accepted only from peers holding the same key and the right role."""
from hqrules.core import FailClosed, callee_of, callee_decl, op_local, op_place, place_fields, norm, op_const
from hqrules.templates import (effect_blocks, must_pass, state_writes, variants_at, call_sites, construct_sites, Effect,
                               loop_headers_containing, owner_fn, scrutinees, guard_edges, dominated_by_edges,
                               local_field_sources, binops, operand_fields, field_write_sites, field_read_sites, const_operands)
from hqrules.templates import bool_uses, assembled_field_sources
from .common import *

EXPLANATION = ('Replay/reflection resistance as a protocol property needs a symbolic attacker model and the strength of the AEAD is trusted; neither is '
               'decided. Decided is the binding of acceptance to key, role, protocol and challenge: (R20.1) finish_authentication accepts only in the '
               '(NoAuth, no key) and (Encryption, key) cells, after a recorded local refusal was checked, after open_chunk succeeded, and after tag and '
               'opened bytes were compared with peer_role || own challenge; (R20.2) make_auth_response checks protocol and role before any non-error '
               'answer, answers per the mode x key table, seals my_role || peer challenge, and every refusal goes through _make_error which records '
               'it; (R20.3) the challenge is fresh random bytes stored for the comparison and the Authenticator is per connection; (R20.4) all '
               'endpoint pairs use complementary roles and the same protocol constant, and nothing is opened before authentication.')
NOT_DECIDED = ['replay / reflection resistance as a protocol property (needs a symbolic attacker model)', 'strength of the AEAD (orion)']
ASSUMPTIONS = ['orion StreamOpener::open_chunk fails on a wrong key or modified ciphertext']
AUTHM = T + 'transfer::auth::'
AU = AUTHM + 'Authenticator'
MSG = T + 'messages::auth::'
RESP = MSG + 'AuthenticationResponse'
MODE = MSG + 'AuthenticationMode'
OPTION = 'core::option::Option'
RESULT = 'core::result::Result'


def _key_scrut(b):
    """scrutinee key of the Option discriminant read on self.secret_key"""
    ks = [k for k in scrutinees(b, OPTION) if 'secret_key' in k]
    return ks


def run(ctx):
    prog = ctx.prog
    ctx.rule('R20.1', 'finish_authentication: acceptance cells, recorded refusal checked first, challenge/role/tag comparison dominates acceptance')
    ctx.rule('R20.2', 'make_auth_response: protocol and role checks first; mode x key table; sealed bytes = my_role || peer challenge; refusals recorded through _make_error')
    ctx.rule('R20.3', 'make_auth_request: fresh random challenge stored for the later comparison; Authenticator is created per connection')
    ctx.rule('R20.4', 'endpoint pairs: complementary roles, same protocol; authentication precedes the first opened message; Connection built only after success')

    fa = prog.body(AU + '::finish_authentication')
    # ---- R20.1
    ks = _key_scrut(fa)
    ctx.require(len(ks) >= 1, f'R20.1: secret_key scrutinee not found: {list(scrutinees(fa, OPTION))}')
    rs = list(scrutinees(fa, RESP))
    ctx.require(len(rs) == 1, f'R20.1: AuthenticationResponse scrutinee: {rs}')
    # blocks that define the accepted opener value: aggregates Option::None / Option::Some of StreamOpener type
    acc = []
    for bi in fa.reachable():
        for s in fa.stmts(bi):
            if s['k'] == 'a' and s['rv'][0] == 'agg' and s['rv'][1][0] == 'adt' and norm(s['rv'][1][1]) == OPTION and 'StreamOpener' in fa.locals[s['p'][0]][0]:
                acc.append((bi, s, s['rv'][1][2]))
    ctx.floor('R20.1', len(acc), 1, 'acceptance sites (opener value)')
    cells = set()
    for bi, s, v in acc:
        rv_ = variants_at(fa, RESP, bi)
        kv = set()
        for k in ks:
            st = fa.variant_flow(OPTION).get(k, {})
            kv |= set(st.get(bi, ()))
        cell = (tuple(sorted(rv_ or [])), tuple(sorted(kv)))
        cells.add((cell, v))
        want = {('NoAuth',): ('None',), ('Encryption',): ('Some',)}
        ok = cell[0] in want and cell[1] == want[cell[0]] and ((v == 'None') == (cell[0] == ('NoAuth',)))
        ctx.ob('R20.1', f'accept|response={"+".join(cell[0])}', ok,
               f'acceptance with opener={v} happens only in the cell response={cell[0]} x key={cell[1]}; allowed cells: (NoAuth, no key) and (Encryption, key)', fa.loc(bi, s))
    # recorded refusal checked before anything is accepted
    tk = [bi for bi in fa.call_blocks('core::mem::take') if 'error' in local_field_sources(fa, op_local(fa.term[bi]['args'][0]))]
    ctx.require(tk, 'R20.1: self.error is not consulted')
    ek = sorted([k for k, d in scrutinees(fa, OPTION).items() if d['root'] == fa.term[tk[0]]['d'][0]], key=len)
    ctx.require(ek, 'R20.1: Option of self.error not matched')
    entries, region = fa.arm_entries(OPTION, {'Some'}, ek[0])
    ctx.ob('R20.1', 'recorded refusal -> Err', bool(region) and not any(bi in fa.reach_from(entries) for bi, s, v in acc), 'if this side refused the peer (self.error) nothing is accepted', fa.loc(tk[0]))
    for bi, s, v in acc:
        ctx.ob('R20.1', f'accept|{v}|after refusal check', bi not in fa.reach_from([0], avoid=tk), 'the refusal check dominates acceptance', fa.loc(bi, s))
    # Encryption cell: open_chunk ok, tag and bytes compared with peer_role || challenge
    some = [(bi, s) for bi, s, v in acc if v == 'Some']
    ctx.require(len(some) == 1, 'R20.1: one Some(opener) acceptance')
    sbi = some[0][0]
    oc = fa.call_blocks(lambda c: c.endswith('StreamOpener::open_chunk'))
    ctx.ob('R20.1', 'Encryption|open_chunk dominates', bool(oc) and sbi not in fa.reach_from([0], avoid=oc), 'the response is opened with the shared key before acceptance', fa.loc(oc[0]) if oc else fa.loc())
    cmps = [bi for bi, t, c in fa.calls() if bi in fa.reachable() and (callee_decl(t) or '').endswith(('PartialEq::ne', 'PartialEq::eq')) and bi in fa.coreach([sbi])]
    # the comparison whose operands carry self.peer_role and self.challenge (whatever way the expected bytes are assembled)
    def _srcs(b_, a_):
        l_ = op_local(a_)
        return assembled_field_sources(b_, l_) if l_ is not None else set()
    cmp_bytes = [bi for bi in cmps if {'peer_role', 'challenge'} <= set().union(*[_srcs(fa, a) for a in fa.term[bi]['args']])]
    cmp_tag = [bi for bi in cmps if any('StreamTag' in fa.locals[op_local(a)][0] for a in fa.term[bi]['args'] if op_local(a) is not None)]
    ctx.ob('R20.1', 'Encryption|bytes compared', bool(cmp_bytes), 'the opened bytes are compared with the expected response', fa.loc(cmp_bytes[0]) if cmp_bytes else fa.loc())
    ctx.ob('R20.1', 'Encryption|tag compared', bool(cmp_tag), 'the stream tag is compared with Message', fa.loc(cmp_tag[0]) if cmp_tag else fa.loc())
    for name, cb in (('bytes', cmp_bytes), ('tag', cmp_tag)):
        for c in cb[:1]:
            t = fa.term[c]
            is_ne = callee_decl(t).endswith('::ne')
            e, _ = guard_edges(fa, callee_decl(t), not is_ne)
            e = {x for x in e if x[0] in fa.reach_from([c])}
            ctx.ob('R20.1', f'Encryption|{name} comparison guards acceptance', bool(e) and dominated_by_edges(fa, sbi, e, False), f'acceptance requires the {name} comparison to succeed', fa.loc(c))
    srcf = set()
    for bi in cmp_bytes[:1]:
        for a in fa.term[bi]['args']:
            srcf |= _srcs(fa, a)
    ctx.ob('R20.1', 'Encryption|expected = peer_role || challenge', {'peer_role', 'challenge'} <= srcf and 'my_role' not in srcf, f'the expected response is built from self.peer_role and self.challenge, not from my_role (observed sources {sorted(srcf & {"peer_role", "my_role", "challenge"})})', fa.loc(cmp_bytes[0]) if cmp_bytes else fa.loc())
    # whole-value equality: the comparison is PartialEq::eq/ne on the two byte containers (a call), not an element-wise
    # zip/all or starts_with test that accepts a prefix
    if cmp_bytes:
        tys = [fa.locals[op_local(a)][0] for a in fa.term[cmp_bytes[0]]['args'] if op_local(a) is not None]
        ctx.ob('R20.1', 'Encryption|whole-value equality', all(('Vec<u8>' in t or '[u8]' in t or '[u8;' in t) for t in tys) and len(tys) == 2,
               f'the byte comparison is a whole-value equality of two byte containers (observed operand types {tys})', fa.loc(cmp_bytes[0]))
    # order agreement between the two sides when both assemble the bytes with two extend_from_slice calls
    def _order(b_):
        ex = [bi for bi in b_.call_blocks(lambda c: c.endswith('Vec::extend_from_slice'))]
        if len(ex) != 2:
            return None
        a_, c_ = ex
        if a_ in b_.reach_after(c_) and c_ not in b_.reach_after(a_):
            a_, c_ = c_, a_
        return ['role' if {'peer_role', 'my_role'} & local_field_sources(b_, op_local(b_.term[x]['args'][1]), through_mutation=False) else
                'challenge' if 'challenge' in local_field_sources(b_, op_local(b_.term[x]['args'][1]), through_mutation=False) else '?' for x in (a_, c_)]
    mr_ = prog.body(AU + '::make_auth_response')
    o1, o2 = _order(fa), _order(mr_)
    if o1 is not None and o2 is not None:
        ctx.ob('R20.1', 'Encryption|role-then-challenge on both sides', o1 == o2 == ['role', 'challenge'], f'verifier and responder assemble the bytes in the same order (verifier {o1}, responder {o2})', fa.loc())
    else:
        ctx.note('R20.1 order agreement', f'not evaluated: assembly is not two extend_from_slice calls on both sides (verifier {o1}, responder {o2})')
    # every other path returns Err: the Ok result is constructed once, reachable only through acceptance sites
    oks = [bi for o, b, bi, s in construct_sites(prog, RESULT, 'Ok') if b.path == fa.path]
    ctx.ob('R20.1', 'Ok only through acceptance', len(oks) == 1 and oks[0] not in fa.reach_from([0], avoid=[bi for bi, s, v in acc]), 'the only Ok result is reached through one of the acceptance cells', fa.loc(oks[0]) if oks else fa.loc())

    # ---- R20.2
    mr = prog.body(AU + '::make_auth_response')
    nonerr = [(bi, s, s['rv'][1][2]) for o, b, bi, s in construct_sites(prog, RESP) if b.path == mr.path]
    for bi, s, v in nonerr:
        if v == 'Error':
            ctx.ob('R20.2', 'make_auth_response|Error built by hand', False, 'refusals must be produced by _make_error, which records them in self.error (a refusal that is sent but not remembered lets finish_authentication accept later)', mr.loc(bi, s))
    errs = set(o for o, b, bi, s in construct_sites(prog, RESP, 'Error') if not is_test_util(o) and '::_::' not in o)
    ctx.ob('R20.2', 'Error response|constructed only in _make_error', errs == {AU + '::_make_error'}, f'AuthenticationResponse::Error is built only by _make_error (observed {sorted(x.split("::")[-1] for x in errs)})', None)
    me = prog.body(AU + '::_make_error')
    we = [bi for bi, st, pl, fs in me.field_writes() if fs and fs[-1][0] == 'error']
    ok, _ = must_pass(me, [0], we)
    ctx.ob('R20.2', '_make_error|records refusal', bool(we) and ok, '_make_error stores the refusal in self.error on every path', me.loc())
    ne = [bi for bi, s, op, a, c in binops(mr) if op == 'Ne' and 'protocol' in (operand_fields(mr, a) | operand_fields(mr, c))]
    role_cmp = [bi for bi, t, c in mr.calls() if bi in mr.reachable() and (callee_decl(t) or '').endswith(('PartialEq::ne', 'PartialEq::eq')) and
                any('peer_role' in local_field_sources(mr, op_local(a)) or 'role' in local_field_sources(mr, op_local(a)) for a in t['args'] if op_local(a) is not None)]
    ctx.ob('R20.2', 'protocol check present', bool(ne), 'message.protocol is compared with self.protocol', mr.loc(ne[0]) if ne else mr.loc())
    ctx.ob('R20.2', 'role check present', bool(role_cmp), 'message.role is compared with self.peer_role', mr.loc(role_cmp[0]) if role_cmp else mr.loc())
    ks2 = _key_scrut(mr)
    ms = list(scrutinees(mr, MODE))
    ctx.require(ks2 and ms, 'R20.2: mode / key scrutinees')
    good = [(bi, s, v) for bi, s, v in nonerr if v != 'Error']
    ctx.floor('R20.2', len(good), 1, 'non-error responses')
    for bi, s, v in good:
        for nm, cbk in (('protocol', ne), ('role', role_cmp)):
            ctx.ob('R20.2', f'{v}|{nm} check dominates', bool(cbk) and bi not in mr.reach_from([0], avoid=cbk), f'the {nm} check dominates the {v} answer', mr.loc(bi, s))
        mv = variants_at(mr, MODE, bi)
        kv = set()
        for k in ks2:
            kv |= set(mr.variant_flow(OPTION).get(k, {}).get(bi, ()))
        want = {'NoAuth': ({'NoAuth'}, {'None'}), 'Encryption': ({'Encryption'}, {'Some'})}[v]
        ctx.ob('R20.2', f'{v}|mode x key cell', mv is not None and set(mv) == want[0] and kv == want[1], f'{v} is answered only for mode={sorted(want[0])} x key={sorted(want[1])} (observed mode {sorted(mv) if mv else mv}, key {sorted(kv)})', mr.loc(bi, s))
    # checks lead to _make_error on their failing edge
    mkerr = mr.call_blocks(AU + '::_make_error')
    ctx.ob('R20.2', 'refusals via _make_error', len(mkerr) >= 4, f'protocol, role, challenge-length and both mode/key mismatches call _make_error (observed {len(mkerr)} sites)', mr.loc())
    seal = mr.call_blocks(lambda c: c.endswith('StreamSealer::seal_chunk'))
    ctx.require(seal, 'R20.2: seal_chunk')
    srcf = set()
    for a in mr.term[seal[0]]['args'][1:]:
        l_ = op_local(a)
        if l_ is not None:
            srcf |= assembled_field_sources(mr, l_)
    ctx.ob('R20.2', 'sealed bytes = my_role || peer challenge', {'my_role', 'challenge'} <= srcf and 'peer_role' not in srcf, f'the sealed response is built from my_role and the challenge received from the peer (observed sources {sorted(srcf & {"peer_role", "my_role", "challenge"})})', mr.loc(seal[0]))
    # challenge length: exactly CHALLENGE_LENGTH (an empty or short challenge makes the sealed response replayable)
    lens = [(bi, s, op) for bi, s, op, a, c in binops(mr) if op in ('Ne', 'Eq', 'Lt', 'Le', 'Gt', 'Ge') and
            any(op_local(x) is not None and 'challenge' in local_field_sources(mr, op_local(x), through_mutation=False) for x in (a, c))]
    ctx.ob('R20.2', 'challenge length|exact', len(lens) == 1 and lens[0][2] in ('Ne', 'Eq'), f'the length of the received challenge is tested for equality with CHALLENGE_LENGTH (observed {[x[2] for x in lens]})', mr.loc(lens[0][0], lens[0][1]) if lens else mr.loc())
    if lens:
        bi_, s_, op_ = lens[0]
        uses_ = bool_uses(mr, s_['p'][0])
        good_e = set((sb, fs_ if op_ == 'Ne' else ts_) for sb, ts_, fs_ in uses_)
        ctx.ob('R20.2', 'challenge length|guards the sealed answer', bool(good_e) and dominated_by_edges(mr, seal[0], good_e, False), 'the response is sealed only when the length test succeeded', mr.loc(bi_, s_))
    ws = [bi for bi, st, pl, fs in mr.field_writes() if fs and fs[-1][0] == 'sealer']
    ctx.ob('R20.2', 'sealer kept', bool(ws), 'the sealer that produced the response is kept for the session', mr.loc())

    # ---- R20.3
    rq = prog.body(AU + '::make_auth_request')
    rnd = rq.call_blocks(lambda c: c.endswith('secure_rand_bytes'))
    ctx.ob('R20.3', 'challenge from secure_rand_bytes', bool(rnd), 'the challenge is filled by orion secure_rand_bytes', rq.loc(rnd[0]) if rnd else rq.loc())
    if rnd:
        buf = rq._mutref_target(op_local(rq.term[rnd[0]]['args'][0]))
        cf = [bi for bi, t, c in rq.calls() if bi in rq.reachable() and (callee_decl(t) or '').endswith(('Clone::clone_from', 'Clone::clone')) and 'challenge' in local_field_sources(rq, op_local(t['args'][0]))]
        stored = any(buf in rq.derived_from(op_local(a)) for bi in cf for a in rq.term[bi]['args'][1:] if op_local(a) is not None) or \
            any(fs and fs[-1][0] == 'challenge' and fs[-1][1] == AU for bi, st, pl, fs in rq.field_writes())
        ctx.ob('R20.3', 'challenge stored', stored and all(x in rq.reach_from(rnd) for x in cf), 'the same random bytes are stored in self.challenge (after they were generated)', rq.loc(cf[0]) if cf else rq.loc())
        sent = False
        for o, b, bi, s in construct_sites(prog, MSG + 'Challenge'):
            if b.path == rq.path:
                l = op_local(s['rv'][2][0])
                sent = l is not None and buf in rq.derived_from(l)
        ctx.ob('R20.3', 'challenge sent', sent, 'the request carries the generated bytes', rq.loc())
        ksr = [k for k in scrutinees(rq, OPTION)]
        e, _ = guard_edges(rq, 'core::option::Option::is_some', True)
        ctx.ob('R20.3', 'challenge iff key', bool(e) and dominated_by_edges(rq, rnd[0], e, False), 'a challenge is generated exactly when a secret key is configured', rq.loc(rnd[0]))
    callers = set(o for o, b, bi in call_sites(prog, AU + '::new') if not is_test_util(o))
    ctx.ob('R20.3', 'Authenticator::new|per connection', callers == {AUTHM + 'do_authentication'}, f'Authenticator::new is called only inside do_authentication (observed {sorted(callers)})', None)
    da = [prog.bodies[p] for p in prog.with_closures(AUTHM + 'do_authentication') if prog.bodies[p].kind == 'coroutine']
    ctx.require(da, 'R20.3: do_authentication coroutine')
    db = da[0]
    order = [db.call_blocks(AU + '::' + f) for f in ('make_auth_request', 'make_auth_response', 'finish_authentication')]
    ctx.ob('R20.3', 'do_authentication|request, response, finish', all(order) and order[1][0] in db.reach_from(order[0]) and order[2][0] in db.reach_from(order[1]) and order[0][0] not in db.reach_from(order[1]),
           'the four-message exchange is request -> response -> finish on one Authenticator', db.loc())

    # ---- R20.4
    pairs = []
    for o, b, bi in call_sites(prog, AUTHM + 'do_authentication') + call_sites(prog, 'tako::connection::Connection::init'):
        if is_test_util(o):
            continue
        t = b.term[bi]
        off = 0 if callee_of(t).endswith('do_authentication') else 1
        vals = []
        for a in t['args'][off:off + 3]:
            if a[0] == 'k':
                vals.append(a[1])
            else:
                cs = const_operands(b, op_local(a)) if op_local(a) is not None else set()
                vals.append(sorted(cs)[0] if len(cs) == 1 else None)
        if o == 'tako::connection::Connection::init':
            continue   # forwards its parameters
        pairs.append((o, b.loc(bi), tuple(vals)))
    ctx.floor('R20.4', len(pairs), 1, 'endpoint call sites with constant roles')
    norm_ = lambda v: v.replace('const ', '') if isinstance(v, str) else v
    seen = {}
    for o, loc, (proto, me_, peer) in pairs:
        seen[(norm_(me_), norm_(peer))] = (o, loc, norm_(proto))
    for (me_, peer), (o, loc, proto) in sorted(seen.items(), key=str):
        other = seen.get((peer, me_))
        ctx.ob('R20.4', f'{me_}->{peer}|complement exists', other is not None and other[2] == proto and me_ is not None and peer is not None,
               f'endpoint ({proto}, {me_}, {peer}) at {o.split("::")[-1]} has a counterpart ({proto}, {peer}, {me_})', loc)
    # nothing is opened before authentication
    for o, b, bi in call_sites(prog, AUTHM + 'open_message'):
        if is_test_util(o) or b.path.startswith('tako::internal::tests'):
            continue
        ab = b.call_blocks(AUTHM + 'do_authentication') + [x for x in b.call_blocks(lambda c: c.endswith('do_authentication::{closure#0}'))]
        if ab:
            ctx.ob('R20.4', f'{o.split("::")[-1]}|auth before first open_message', bi not in b.reach_from([0], avoid=ab), 'do_authentication dominates the first open_message', b.loc(bi))
    cons = set(o for o, b, bi, s in construct_sites(prog, 'tako::connection::Connection') if not is_test_util(o))
    ctx.ob('R20.4', 'Connection|constructed only after authentication', cons == {'tako::connection::Connection::init'}, f'Connection is built only by Connection::init (observed {sorted(cons)})', None)
    ci = [prog.bodies[p] for p in prog.with_closures('tako::connection::Connection::init') if prog.bodies[p].kind == 'coroutine']
    if ci:
        cb = ci[0]
        ab = cb.call_blocks(AUTHM + 'do_authentication')
        cc = [bi for o, b, bi, s in construct_sites(prog, 'tako::connection::Connection') if b.path == cb.path]
        ctx.ob('R20.4', 'Connection::init|authenticates first', bool(ab) and bool(cc) and cc[0] not in cb.reach_from([0], avoid=ab), 'Connection::init builds the connection only after do_authentication', cb.loc(cc[0]) if cc else cb.loc())
        # the wrapper hands its own arguments through: protocol / roles / key given to do_authentication are the values the
        # caller of Connection::init supplied (the coroutine reads them from its captured state), never constants
        if ab:
            t_ = cb.term[ab[0]]
            for i_, nm_ in enumerate(('protocol', 'my_role', 'peer_role', 'key')):
                a_ = t_['args'][i_] if i_ < len(t_['args']) else None
                l_ = op_local(a_) if a_ is not None else None
                ctx.ob('R20.4', f'Connection::init|passes its {nm_} argument on', a_ is not None and a_[0] != 'k' and l_ is not None and 1 in cb.derived_from(l_, through_mutation=False),
                       f'argument {i_} ({nm_}) of do_authentication comes from the arguments of Connection::init (a constant here switches the {nm_} check off for every hq client/server connection)', cb.loc(ab[0]))

    # ---- R20.5 key plumbing: which key guards which listener
    ctx.rule('R20.5', 'key plumbing: the client listener is armed with the client key and the worker listener with the worker key (ServerConfig fields filled from the matching accessor of the access file; bootstrap hands worker_secret_key to the tako worker server and client_secret_key to the client connection handler)')
    SRVC = 'hyperqueue::server::bootstrap::ServerConfig'
    n5 = 0
    for o_, b_, bi_, s_ in construct_sites(prog, SRVC):
        if is_test_util(o_) or '::tests::' in o_ or '::_::' in o_:
            continue
        names = s_['rv'][1][3]
        for fld, want, other in (('client_secret_key', 'client_key', 'worker_key'), ('worker_secret_key', 'worker_key', 'client_key')):
            if fld not in names:
                continue
            l_ = op_local(s_['rv'][2][names.index(fld)])
            callees = set()
            for x_ in (b_.derived_from(l_, through_mutation=False) if l_ is not None else ()):
                for d_ in b_.defs().get(x_, ()):
                    if d_[1] == 'call':
                        callees.add((callee_of(d_[2]) or '').split('::')[-1])
                    if d_[1] == 'a' and d_[2]['rv'][0] == 'agg' and d_[2]['rv'][1][0] == 'closure':
                        for cp_ in prog.with_closures(norm(d_[2]['rv'][1][1])):
                            for bj_, t2_, c2_ in prog.bodies[cp_].calls():
                                callees.add((c2_ or '').split('::')[-1])
            if want in callees or other in callees:
                n5 += 1
                ctx.ob('R20.5', f'{o_.split("::")[-1]}|ServerConfig.{fld} <- {want}()', want in callees and other not in callees,
                       f'{fld} is taken from AccessRecord::{want}() (observed accessors {sorted(callees & {"client_key", "worker_key"})})', b_.loc(bi_, s_))
    ctx.floor('R20.5', n5, 2, 'ServerConfig key fields filled from an access file')
    BOOT_ = 'hyperqueue::server::bootstrap::'
    ib_ = [prog.bodies[p_] for p_ in prog.with_closures(BOOT_ + 'initialize_server') if prog.bodies[p_].kind == 'coroutine']
    ctx.require(ib_, 'R20.5: initialize_server coroutine')
    ib_ = max(ib_, key=lambda b_: b_.n)
    ss_ = ib_.call_blocks('tako::internal::server::start::server_start') or ib_.call_blocks(lambda c: c.endswith('::server_start'))
    ctx.require(ss_, 'R20.5: server_start call in initialize_server')
    kl_ = op_local(ib_.term[ss_[0]]['args'][1])
    ksrc = local_field_sources(ib_, kl_, through_mutation=False) if kl_ is not None else set()
    ctx.ob('R20.5', 'initialize_server|worker server gets worker_secret_key', 'worker_secret_key' in ksrc and 'client_secret_key' not in ksrc,
           f'the key handed to tako server_start (worker connections) is ServerConfig.worker_secret_key (observed {sorted(ksrc & {"worker_secret_key", "client_secret_key"})})', ib_.loc(ss_[0]))

    # ---- R20.6 a key that is present but damaged is an error, never "no key"
    ctx.rule('R20.6', 'access file / server directory: serde_deserialize_key turns a key string that cannot be decoded into a load error (serde Error::custom); swallowing the error (Result::ok, unwrap_or*, and_then(..ok())) yields None, i.e. the endpoint silently runs without authentication and accepts a peer that holds no key')
    sdk = [p_ for p_ in prog.bodies if p_.endswith('serverdir::serde_deserialize_key')]
    ctx.require(len(sdk) == 1, 'R20.6: serde_deserialize_key not found')
    sb6 = [prog.bodies[p_] for p_ in prog.with_closures(sdk[0])]
    dk = [(b_, bi_) for b_ in sb6 for bi_ in b_.call_blocks(lambda c: c.endswith('::deserialize_key') and 'serde_' not in c.split('::')[-1])]
    swallow = [(b_, bi_, c_) for b_ in sb6 for bi_, t_, c_ in b_.calls() if bi_ in b_.reachable() and (c_ or '').endswith(('Result::ok', 'Result::unwrap_or', 'Result::unwrap_or_default', 'Result::unwrap_or_else', 'Result::is_ok', 'Result::is_err'))]
    custom = [(b_, bi_) for b_ in sb6 for bi_, t_, c_ in b_.calls() if bi_ in b_.reachable() and (callee_decl(t_) or c_ or '').endswith('de::Error::custom')]
    ctx.ob('R20.6', 'serde_deserialize_key|undecodable key is an error', bool(dk) and bool(custom) and not swallow,
           f'the result of deserialize_key is propagated as a deserialization error (error-swallowing calls: {[c_.split("::")[-1] for b_, i_, c_ in swallow]})', sb6[0].loc())

    # ---- R20.7 handshake frames are decoded strictly
    ctx.rule('R20.7', 'handshake (de)serialisation uses the same strict bincode options on both sides (DefaultOptions: trailing bytes rejected, with_limit, with_fixint_encoding); bincode::deserialize (legacy config) accepts a frame a man-in-the-middle extended')
    ser_, des_ = prog.body(AUTHM + 'serialize'), prog.body(AUTHM + 'deserialize')
    def _opts(b_):
        return sorted((c_ or '').split('::')[-1] for bi_, t_, c_ in b_.calls() if bi_ in b_.reachable() and (c_ or '').startswith('bincode::') and not (c_ or '').endswith(('::serialize', '::deserialize')))
    so, do = _opts(ser_), _opts(des_)
    strict = bool(des_.call_blocks('bincode::config::Options::deserialize')) and bool(des_.call_blocks('bincode::config::DefaultOptions::new')) and \
        not [1 for bi_, t_, c_ in des_.calls() if (c_ or '') in ('bincode::deserialize', 'bincode::internal::deserialize') or (c_ or '').endswith(('allow_trailing_bytes', 'deserialize_from'))]
    ctx.ob('R20.7', 'auth::deserialize|strict options', strict, f'handshake frames are decoded with DefaultOptions (reject trailing bytes), observed option calls {do}', des_.loc())
    ctx.ob('R20.7', 'auth::serialize/deserialize|same options', so == do and bool(so), f'both directions use the same bincode options (serialize {so}, deserialize {do})', ser_.loc())


