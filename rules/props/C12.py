"""C12 — pruning the journal does not change what a restart restores."""
from hqrules.core import FailClosed, callee_of, callee_decl, op_local, op_place, place_fields, norm, op_const
from hqrules.templates import (effect_blocks, must_pass, state_writes, variants_at, call_sites, construct_sites, Effect,
                               loop_headers_containing, owner_fn, scrutinees, guard_edges, dominated_by_edges,
                               local_field_sources, binops, operand_fields, field_write_sites, field_read_sites)
from .common import *
from .journal_common import *
from . import shared_rules

EXPLANATION = ('Structural conditions of C12: (R12.1) replay <-> prune agreement derived from both functions on every run: a record whose replay '
               'writes job state must be kept always or filtered by JOB liveness, one whose replay writes allocation-queue state must be kept '
               'always; (R12.2) batched records are filtered per id and dropped iff empty; (R12.3) the prune match is exhaustive without a '
               'wildcard; (R12.4) the journal thread flushes before it reads, writes the pruned copy through JournalWriter::create (header), '
               'renames and re-opens for append, removing the temp file on error; (R12.5) liveness sets: job live <=> !is_terminated, worker '
               'live <=> is_running.')
NOT_DECIDED = ['equality of the two restores (relational property over journals)']
RELATED = {'C13': ['R13.2']}
ASSUMPTIONS = []
CLIENT = HQ + 'client::'
SETC = {'hashbrown::set::HashSet::contains', 'std::collections::hash::set::HashSet::contains'}
ESM = STREAM + 'EventStreamMessage'


def prune_filters(prog):
    """{variant: set of 'job' | 'worker'} liveness sets consulted in the prune arm of the variant."""
    pj = prog.body(PRUNE)
    out = {v: set() for v in prog.variants(EP)}
    bodies = [pj] + [prog.bodies[p] for p in prog.children(PRUNE)]
    for b in bodies:
        for bi, t, c in b.calls():
            if c not in SETC or bi not in b.reachable():
                continue
            l = op_local(t['args'][0])
            kind = None
            srcs = b.derived_from(l)
            names = set()
            for x in srcs:
                n = b.local_name.get(x)
                if n:
                    names.add(n)
            fs = local_field_sources(b, l)
            if 'live_job_ids' in names or 'live_job_ids' in fs or 3 in srcs and b is pj:
                kind = 'job'
            if 'live_worker_ids' in names or 'live_worker_ids' in fs or 4 in srcs and b is pj:
                kind = 'worker'
            if kind is None:
                raise FailClosed(f'R12.1: cannot classify contains() at {b.loc(bi)}')
            if b is pj:
                vs = variants_at(pj, EP, bi)
            else:
                # closure (retain): attributed to the arm that creates the closure
                vs = None
                for x in pj.reachable():
                    for s in pj.stmts(x):
                        if s['k'] == 'a' and s['rv'][0] == 'agg' and s['rv'][1][0] == 'closure' and norm(s['rv'][1][1]) == b.path:
                            vs = variants_at(pj, EP, x)
            if not vs or len(vs) == len(out):
                raise FailClosed(f'R12.1: contains() at {b.loc(bi)} is not inside a prune arm')
            for v in vs:
                out[v].add(kind)
    return out


def run(ctx):
    prog = ctx.prog
    ctx.rule('R12.1', 'replay <-> prune agreement per EventPayload variant (domains written by the replay arm vs liveness set consulted by the prune arm)')
    ctx.rule('R12.2', 'batched TasksCanceled/TasksAborted: ids retained by job liveness; record dropped iff no id is left')
    ctx.rule('R12.3', 'prune_journal matches every EventPayload variant explicitly (no wildcard)')
    ctx.rule('R12.4', 'journal thread: flush before JournalReader::open (prune and replay); pruned copy created with JournalWriter::create; rename then create_or_append(None); temp file removed on error')
    ctx.rule('R12.5', 'handle_prune_journal: job live <=> !Job::is_terminated(), worker live <=> Worker::is_running()')

    rw = replay_writes(prog)
    pf = prune_filters(prog)
    ctx.note('prune_filters', {k: sorted(v) for k, v in pf.items() if v})
    ctx.note('replay_domains', {k: sorted({DOMAINS.get(f, '?') for f in v}) for k, v in rw.items() if v})
    pj = prog.body(PRUNE)
    n = 0
    for v in prog.variants(EP):
        doms = {DOMAINS.get(f) for f in rw.get(v, set())} - {None, 'meta'}
        filt = pf.get(v, set())
        for d in sorted(doms):
            n += 1
            if d == 'job':
                ok = filt <= {'job'}
                msg = f'replay of {v} writes job state ({sorted(f for f in rw[v] if DOMAINS.get(f) == "job")}); prune must keep it always or filter by job liveness (observed filter {sorted(filt) or "keep-always"})'
            else:
                ok = not filt
                msg = f'replay of {v} writes allocation-queue state ({sorted(f for f in rw[v] if DOMAINS.get(f) == "queue")}); prune must keep it always (observed filter {sorted(filt)})'
            ctx.ob('R12.1', f'{v}|{d}', ok, msg, pj.loc())
    ctx.floor('R12.1', n, 8, 'variant x domain pairs')
    # a record whose replay writes restorer state and whose prune arm consults no liveness set must never be dropped
    # (e.g. ServerStart carries the server uid; it belongs to no job or worker)
    OPTION_ = 'core::option::Option'
    may_drop = {v: False for v in prog.variants(EP)}
    for o_, b_, bi_, s_ in construct_sites(prog, OPTION_, 'None'):
        if b_.path == pj.path:
            vs_ = variants_at(pj, EP, bi_)
            for v in (vs_ if vs_ is not None else prog.variants(EP)):
                may_drop[v] = True
    nk = 0
    for v in prog.variants(EP):
        if rw.get(v) and not pf.get(v):
            nk += 1
            ctx.ob('R12.1', f'{v}|kept unconditionally', not may_drop[v],
                   f'replay of {v} writes restorer state ({sorted(rw[v])}) and its prune arm consults no liveness set: the record must be kept on every path (a dropped ServerStart loses the server uid, a dropped queue record loses the queue)', pj.loc())
    ctx.floor('R12.1', nk, 4, 'state-writing records without a liveness filter')
    # a job record that prune keeps without asking whether its job is live can outlive the job's other records: its replay
    # arm must then tolerate a job it does not know (no unwrap on the jobs lookup)
    lef_ = prog.body(LEF)
    UNW = ('Option::unwrap', 'Option::expect')
    for v in prog.variants(EP):
        if 'job' not in {DOMAINS.get(f) for f in rw.get(v, set())}:
            continue
        strict = [bi for bi, t, c in lef_.calls() if bi in lef_.reachable() and (c or '').endswith(UNW) and (variants_at(lef_, EP, bi) or set()) == {v}
                  and op_local(t['args'][0]) is not None and 'jobs' in local_field_sources(lef_, op_local(t['args'][0]), through_mutation=False)]
        ctx.ob('R12.1', f'{v}|job filter or tolerant replay', 'job' in pf.get(v, set()) or not strict,
               f'{v}: prune filters the record by job liveness, or the replay arm does not unwrap the job lookup (observed filter {sorted(pf.get(v, set())) or "keep-always"}, unwrapping lookups in the replay arm: {len(strict)})', lef_.loc(strict[0]) if strict else pj.loc())
    shared_rules.replay_batch_lookup_per_id(ctx, 'R12.2')
    # records that are filtered by job liveness must actually be job records (sanity of the derivation)
    for v, filt in pf.items():
        if 'job' in filt:
            ctx.ob('R12.1', f'{v}|job filter on job record', 'jobs' in rw.get(v, set()) or v in ('JobCompleted',), f'{v} is filtered by job liveness and its replay touches jobs', pj.loc())

    # ---- R12.2
    for v in ('TasksAborted', 'TasksCanceled'):
        reg = pj.arm_blocks(EP, {'TasksAborted', 'TasksCanceled'})
        ret = [bi for bi in pj.call_blocks(lambda c: c.endswith('::retain')) if bi in reg]
        ie = [bi for bi in pj.call_blocks(lambda c: c.endswith('::is_empty')) if bi in reg]
        ctx.ob('R12.2', f'{v}|retain', bool(ret) and pf[v] == {'job'}, f'{v}: the id list is filtered per id by job liveness', pj.loc(ret[0]) if ret else pj.loc())
        neg = False
        for x in ie:
            dl = pj.term[x]['d'][0]
            for y in pj.reachable():
                for s in pj.stmts(y):
                    if s['k'] == 'a' and s['rv'][0] == 'un' and s['rv'][1] == 'Not' and op_local(s['rv'][2]) == dl:
                        neg = True
        ctx.ob('R12.2', f'{v}|dropped iff empty', bool(ie) and neg, f'{v}: the record is kept iff the filtered list is NOT empty', pj.loc(ie[0]) if ie else pj.loc())

    # ---- R12.3
    sws = [bi for bi in pj.reachable() if (pj.switch_info(bi) or {}).get('kind') == 'discr' and pj.switch_info(bi)['enum'] == EP]
    ctx.require(len(sws) >= 1, 'R12.3: EventPayload switch missing')
    for sb in sws[:1]:
        t = pj.term[sb]
        explicit = len(t['ts'])
        other = pj.term[t['o']]
        ctx.ob('R12.3', 'prune_journal|exhaustive', explicit == len(prog.variants(EP)) and other and other['k'] == 'unreach',
               f'every EventPayload variant has an explicit prune arm ({explicit}/{len(prog.variants(EP))}); a wildcard would silently keep or drop future records', pj.loc(sb))

    # ---- R12.4
    sp = [prog.bodies[p] for p in prog.with_closures(STREAM + 'streaming_process')]
    nchecked = 0
    for b in sp:
        opens = b.call_blocks(JR + '::open')
        wf = set(b.call_blocks(JW + 'flush'))
        for ob in opens:
            vs = variants_at(b, ESM, ob)
            nchecked += 1
            hs = loop_headers_containing(b, ob)
            ok = ob not in b.reach_from(hs[:1] or [0], avoid=wf)
            ctx.ob('R12.4', f'streaming_process|{"+".join(sorted(vs)) if vs and len(vs) < 4 else "?"}|flush before open', ok,
                   'the live writer is flushed before the journal is opened for reading (JournalReader::open records the file length; buffered records would be left out)', b.loc(ob))
        pr = b.call_blocks(PRUNE)
        if pr:
            cr = b.call_blocks(JW + 'create')
            rn = b.call_blocks('std::fs::rename')
            coa = b.call_blocks(JW + 'create_or_append')
            rm = b.call_blocks('std::fs::remove_file')
            ctx.ob('R12.4', 'prune|tmp writer via create', bool(cr) and pr[0] in b.reach_from(cr) and pr[0] not in b.reach_from(hs[:1] or [0], avoid=cr), 'the pruned copy is written through JournalWriter::create (which writes the header)', b.loc(pr[0]))
            ctx.ob('R12.4', 'prune|rename after prune', bool(rn) and rn[0] in b.reach_from(pr) and rn[0] not in b.reach_from(hs[:1] or [0], avoid=pr), 'rename happens after prune_journal', b.loc(rn[0]) if rn else b.loc())
            ok = bool(coa) and bool(rn) and any(x in b.reach_from(rn) and x not in b.reach_from(hs[:1] or [0], avoid=rn) for x in coa)
            ctx.ob('R12.4', 'prune|reopen for append after rename', ok, 'the live writer is re-created on the renamed file', b.loc(coa[0]) if coa else b.loc())
            if coa:
                a1 = b.term[[x for x in coa if x in b.reach_from(rn)][0]]['args'][1] if rn and [x for x in coa if x in b.reach_from(rn)] else None
                is_none = False
                if a1 is not None:
                    l = op_local(a1)
                    sd = b.single_def(l) if l is not None else None
                    is_none = bool(sd and sd[1] == 'a' and sd[2]['rv'][0] == 'agg' and sd[2]['rv'][1][2] == 'None')
                ctx.ob('R12.4', 'prune|append without truncation', is_none, 'create_or_append(.., None): the pruned journal is appended to, not truncated', b.loc(coa[0]))
            ctx.ob('R12.4', 'prune|tmp removed on error', bool(rm) and rm[0] in b.reach_from(pr), 'a failed prune removes the temp file and leaves the journal untouched', b.loc(rm[0]) if rm else b.loc())
            dr = [x for x in b.reachable() if b.term[x] and b.term[x]['k'] == 'call' and callee_of(b.term[x]) == 'core::mem::drop' and x not in b.reach_from(pr)]
    ctx.floor('R12.4', nchecked, 1, 'JournalReader::open sites in the journal thread')
    jwc = prog.body(JW + 'create')
    trunc = jwc.call_blocks('std::fs::File::create')
    wh = jwc.call_blocks(JW + 'write_header')
    from .C10 import _only_error_exits
    okh = bool(trunc) and bool(wh) and (must_pass(jwc, trunc, wh)[0] or _only_error_exits(jwc, wh))
    ctx.ob('R12.4', 'JournalWriter::create|truncates and writes a header', bool(trunc) and okh and not jwc.call_blocks(JW + 'create_or_append'),
           'JournalWriter::create starts from an empty file (File::create) and always writes the header; appending to a stale <journal>.tmp left by an interrupted prune yields a malformed journal', jwc.loc())

    # ---- R12.5
    hp = [prog.bodies[p] for p in prog.with_closures(CLIENT + 'handle_prune_journal')]
    it = [(b, bi) for b in hp for bi in b.call_blocks(JOB + 'is_terminated')]
    ir = [(b, bi) for b in hp for bi in b.call_blocks(HQ + 'worker::Worker::is_running')]
    others = [(b, c) for b in hp for bi, t, c in b.calls() if c and c.startswith(JOB) and c != JOB + 'is_terminated' and bi in b.reachable()]
    ctx.ob('R12.5', 'handle_prune_journal|job predicate', len(it) == 1 and not others, f'job liveness is decided by Job::is_terminated only (other Job calls: {sorted(set(c.split("::")[-1] for b, c in others))})', hp[0].loc())
    OPTION = 'core::option::Option'
    for (b, bi), want_true, what in ((it[0] if it else (None, None), False, 'job'), (ir[0] if ir else (None, None), True, 'worker')):
        if b is None:
            ctx.ob('R12.5', f'handle_prune_journal|{what} polarity', False, 'predicate call missing', hp[0].loc())
            continue
        callee = callee_of(b.term[bi])
        edges, _ = guard_edges(b, callee, want_true)
        if b.locals[0][0] == 'bool':
            # filter(|x| [!]pred(x)) form: the closure result is the predicate value or its negation, or a constant per edge
            dl = b.term[bi]['d'][0]
            pol = None
            if b.term[bi]['d'] == [0, []]:
                pol = True
            for bj in b.reachable():
                for st_ in b.stmts(bj):
                    if st_['k'] == 'a' and st_['p'] == [0, []]:
                        rv_ = st_['rv']
                        if rv_[0] == 'un' and rv_[1] == 'Not' and op_local(rv_[2]) == dl:
                            pol = False
                        elif rv_[0] == 'use' and op_local(rv_[1]) == dl:
                            pol = True
                        elif rv_[0] == 'use' and op_const(rv_[1]) is not None and str(op_const(rv_[1])).replace('const ', '').startswith('true'):
                            pol = want_true if dominated_by_edges(b, bj, edges, False) else (not want_true)
            ok = pol is not None and pol == want_true
        else:
            somes = [x for o, bb, x, s in construct_sites(prog, OPTION, 'Some') if bb.path == b.path]
            ok = bool(somes) and all(dominated_by_edges(b, x, edges, False) for x in somes)
        ctx.ob('R12.5', f'handle_prune_journal|{what} polarity', ok, f'{what} is live (Some(id)) exactly when {callee.split("::")[-1]}() == {want_true}', b.loc(bi))
    pjc = [x for b in hp for x in b.call_blocks(STREAMER + 'prune_journal')]
    ctx.ob('R12.5', 'handle_prune_journal|awaits completion', bool(pjc) and any(b.yields() for b in hp), 'the request is answered after the journal thread finished pruning', hp[0].loc())
