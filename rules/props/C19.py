"""C19 — streamed task output reads back complete, in order, and only from the last run (structural clauses)."""
from hqrules.core import FailClosed, callee_of, callee_decl, op_local, op_place, place_fields, norm, op_const
from hqrules.templates import (effect_blocks, must_pass, state_writes, variants_at, call_sites, construct_sites, Effect,
                               loop_headers_containing, owner_fn, scrutinees, guard_edges, dominated_by_edges,
                               local_field_sources, binops, operand_fields, field_write_sites, field_read_sites)
from .common import *

EXPLANATION = ('Byte-exact reassembly under arbitrary interleaving, chunk sizes and torn files are value-level and not decided. Decided: (R19.1) one '
               'writer task per stream directory owns the file; header and data of a chunk are written back-to-back with no receive in between; a '
               'descriptor is inserted only when none exists; (R19.2) writer side completeness: resend_stdio sends every read (including the '
               'zero-length end marker) before leaving its loop, the pipe readers are joined only with the process wait (the exit status is '
               'interpreted after the join), and the stream is flushed after the task on every path; (R19.3) reader side: a new instance record '
               'is opened whenever the instance id differs, records are sorted by instance id, output paths read channels/file_idx only through '
               'last_instance() (superseded() only for size accounting), finished is set only by a zero-size header; (R19.4) both sides use the '
               'same header type, serialization config and file magic.')
NOT_DECIDED = ['byte-exact reassembly under arbitrary interleaving and chunk sizes (value-level); of torn files only the header case is decided (R19.5), a file cut inside chunk data is not']
RELATED = {'C06': ['R06.1', 'R06.4', 'R06.5', 'R06.8', 'R06.9']}
ASSUMPTIONS = []
WS = 'hyperqueue::worker::streamer::'
PG = 'hyperqueue::worker::start::program::'
OL = 'hyperqueue::stream::reader::outputlog::'
II = OL + 'InstanceInfo'
TI = OL + 'TaskInfo'
SCH = 'hyperqueue::transfer::stream::StreamChunkHeader'
SM = WS + 'StreamerMessage'


def cor(prog, path):
    cs = [prog.bodies[p] for p in prog.with_closures(path) if prog.bodies[p].kind == 'coroutine']
    if not cs:
        raise FailClosed(f'anchor missing: coroutine of {path}')
    return cs


def run(ctx):
    prog = ctx.prog
    ctx.rule('R19.1', 'single writer per directory; chunk header and data written back-to-back; descriptor inserted only when absent')
    ctx.rule('R19.2', 'writer completeness: end marker sent before leaving the loop; exit status interpreted after the pipes were drained; flush after the task on every path')
    ctx.rule('R19.3', 'reader: new instance record whenever the id differs; sorted by instance id; output paths use last_instance(); finished only on a zero-size header')
    ctx.rule('R19.5', 'torn writer file: a chunk header cut short by a worker crash (bincode Io(UnexpectedEof)) ends that file quietly (Ok(None)); it does not fail the whole directory')
    ctx.rule('R19.4', 'both sides share StreamChunkHeader, StreamSerializationConfig and STREAM_FILE_HEADER')

    # ---- R19.1
    sw = max(cor(prog, WS + 'stream_writer'), key=lambda b: b.n)
    recv = sw.call_blocks(lambda c: c.endswith('mpsc::bounded::Receiver::recv'))
    wa = [bi for bi in sw.call_blocks(lambda c: c.endswith('AsyncWriteExt::write_all'))]
    ctx.require(recv and len(wa) >= 3, f'R19.1: anchors in stream_writer ({len(recv)}, {len(wa)})')
    wr_arm = [bi for bi in wa if (variants_at(sw, SM, bi) or set()) == {'Write'}]
    ctx.floor('R19.1', len(wr_arm), 1, 'write_all calls in the Write arm')
    lh = loop_headers_containing(sw, recv[0])[:1] or loop_headers_containing(sw, wr_arm[0])[-1:]
    hdr = [bi for bi in wr_arm if any(bj != bi and bj in sw.reach_from([bi], avoid=lh) for bj in wr_arm)]
    dat = [bi for bi in wr_arm if bi not in hdr]
    between = sw.reach_from(hdr, avoid=set(dat) | set(lh)) & sw.coreach(dat, avoid=set(lh))
    ctx.ob('R19.1', 'stream_writer|header and data back-to-back', bool(hdr) and bool(dat) and not (set(recv) & between), 'no receive between writing a chunk header and its data within one message (chunks of concurrently running tasks cannot split a chunk)', sw.loc(hdr[0]) if hdr else sw.loc())
    fc = sw.call_blocks(lambda c: c.endswith('fs::file::File::create') or c.endswith('File::create'))
    ctx.ob('R19.1', 'stream_writer|owns its file', len(fc) == 1, 'the stream file is created by (and local to) the writer task', sw.loc(fc[0]) if fc else sw.loc())
    callers = set(o for o, b, bi in call_sites(prog, WS + 'stream_writer') if not is_test_util(o))
    ctx.ob('R19.1', 'stream_writer|spawned only by get_stream', callers == {WS + 'Streamer::get_stream'}, f'stream_writer is started only by Streamer::get_stream (observed {sorted(callers)})', None)
    gs = prog.body(WS + 'Streamer::get_stream')
    ins = [bi for bi in gs.call_blocks(HASH_INSERT) if 'streams' in local_field_sources(gs, op_local(gs.term[bi]['args'][0]))]
    getm = [bi for bi in gs.call_blocks(lambda c: c.endswith('HashMap::get_mut') or c.endswith('HashMap::get')) if 'streams' in local_field_sources(gs, op_local(gs.term[bi]['args'][0]))]
    ctx.require(ins, 'R19.1: streams map insert in get_stream')
    OPTION = 'core::option::Option'
    keys = sorted([k for k, d in scrutinees(gs, OPTION).items() if getm and d['root'] == gs.term[getm[0]]['d'][0]], key=len)
    vs = variants_at(gs, OPTION, ins[0], keys[0]) if keys else None
    ctx.ob('R19.1', 'get_stream|new writer only if none exists', vs is not None and set(vs) == {'None'}, f'a descriptor (and writer task) is created only when the directory has none (observed {sorted(vs) if vs else vs})', gs.loc(ins[0]))

    # ---- R19.2
    rs = max(cor(prog, PG + 'resend_stdio'), key=lambda b: b.n)
    sd = rs.call_blocks(WS + 'StreamSender::send_data')
    ctx.require(sd, 'R19.2: send_data in resend_stdio')
    hs = loop_headers_containing(rs, sd[0])
    ctx.require(hs, 'R19.2: resend loop')
    eq0 = [(bi, s) for bi, s, op, a, c in binops(rs) if op == 'Eq' and any(o[0] == 'k' and '0_' in o[1] for o in (a, c))]
    ctx.require(eq0, 'R19.2: size == 0 test')
    ok = eq0[0][0] not in rs.reach_from(hs[:1], avoid=sd)
    ctx.ob('R19.2', 'resend_stdio|end marker sent before the loop ends', ok, 'the size==0 test that leaves the loop is evaluated after send_data in the same iteration (the zero-length chunk marks the stream finished)', rs.loc(eq0[0][0], eq0[0][1]))
    ctfs = cor(prog, PG + 'create_task_future')
    joiner = [b for b in ctfs if len(b.call_blocks(PG + 'resend_stdio')) == 2]
    ctx.require(len(joiner) == 1, 'R19.2: the future that joins the two resend_stdio calls')
    jb = joiner[0]
    # the exit-status closure: the closure of create_task_future that tests ExitStatus::success
    stc = [p for p in prog.with_closures(PG + 'create_task_future') if prog.bodies[p].kind == 'closure' and prog.bodies[p].call_blocks('std::process::ExitStatus::success')]
    ctx.require(len(stc) == 1, f'R19.2: exit-status closure not identified ({stc})')
    st = jb.call_blocks(stc[0])
    nested = [p for p in prog.with_closures(jb.path) if p != jb.path and prog.bodies[p].call_blocks(stc[0])]
    ctx.ob('R19.2', 'streaming future|exit status interpreted after the join', bool(st) and not nested and all(any(y in jb.coreach([x]) for y in jb.yields()) for x in st),
           'the exit status is interpreted in the joining future after the join completed; inside a joined arm a non-zero exit would short-circuit try_join! and drop the pipe readers before the output is drained', jb.loc(st[0]) if st else jb.loc())
    cw = jb.call_blocks(lambda c: c.endswith('child_wait'))
    ctx.ob('R19.2', 'streaming future|joins process wait with both pipes', bool(cw), 'child_wait is joined with the two resend_stdio futures', jb.loc())
    top = max(ctfs, key=lambda b: b.n)
    hws = top.call_blocks(lambda c: c.endswith('handle_task_with_signals'))
    fl = top.call_blocks(WS + 'StreamSender::flush')
    gsb = top.call_blocks(WS + 'Streamer::get_stream')
    ctx.require(hws and fl and gsb, 'R19.2: anchors in create_task_future')
    streaming_hws = [x for x in hws if x in top.reach_from(gsb)]
    ok, wit = must_pass(top, streaming_hws, fl)
    ctx.ob('R19.2', 'create_task_future|flush after the task', ok, 'on the streaming branch stream.flush() follows the task future on every path (finished and failed)', top.loc(fl[0]))
    fb = max(cor(prog, WS + 'StreamSender::flush'), key=lambda b: b.n)
    ctx.ob('R19.2', 'StreamSender::flush|awaits the writer', len(fb.yields()) >= 2, 'flush waits for the acknowledgement of the writer task', fb.loc())
    fw = [bi for bi in sw.call_blocks(lambda c: c.endswith('AsyncWriteExt::flush')) if (variants_at(sw, SM, bi) or set()) == {'Flush'}]
    cbs = [bi for bi in sw.call_blocks(lambda c: c.endswith('oneshot::Sender::send'))]
    ctx.ob('R19.2', 'stream_writer|Flush answered after file.flush', bool(fw) and bool(cbs) and cbs[0] not in sw.reach_from(loop_headers_containing(sw, cbs[0])[:1] or [0], avoid=fw), 'the flush callback fires after the file was flushed', sw.loc(cbs[0]) if cbs else sw.loc())

    # ---- R19.3
    ci = prog.body(OL + 'OutputLog::create_index')
    closures = [prog.bodies[p] for p in prog.with_closures(ci.path)]
    ne_calls = []
    for b in closures:
        for bi, t, c in b.calls():
            if bi in b.reachable() and (callee_decl(t) or '').endswith(('PartialEq::ne', 'PartialEq::eq', 'PartialOrd::lt', 'PartialOrd::gt', 'PartialOrd::le', 'PartialOrd::ge')):
                fs = set()
                for a in t['args']:
                    fs |= local_field_sources(b, op_local(a))
                if 'instance_id' in fs:
                    ne_calls.append((b, bi, callee_decl(t).split('::')[-1]))
        for bi, s, op, a, c in binops(b):
            if op in ('Ne', 'Eq', 'Lt', 'Gt', 'Le', 'Ge') and 'instance_id' in (operand_fields(b, a) | operand_fields(b, c)):
                ne_calls.append((b, bi, op.lower()))
    ctx.require(len(ne_calls) >= 1, 'R19.3: instance id comparison in create_index')
    ops = sorted({x[2] for x in ne_calls})
    ctx.ob('R19.3', 'create_index|new record whenever the id differs', ops == ['ne'], f'a new InstanceInfo is opened when last.instance_id != chunk.instance (observed comparison {ops}); an ordering test merges an older run indexed after a newer one into the newer record', ne_calls[0][0].loc(ne_calls[0][1]))
    srt = [bi for b in closures for bi in b.call_blocks(lambda c: c.endswith('sort_by_key') or c.endswith('sort_by'))]
    keyc = [b for b in closures if b.path != ci.path and any(n == 'instance_id' for bi in b.reachable() for s in b.stmts(bi) if s['k'] == 'a' for pl in __import__('hqrules.core', fromlist=['rv_places']).rv_places(s['rv']) for n, a, v in place_fields(pl)) and b.locals[0][0].endswith('InstanceId')]
    ctx.ob('R19.3', 'create_index|sorted by instance id', bool(srt) and bool(keyc), 'instance records are sorted by instance_id before the index is returned', ci.loc(srt[0]) if srt else ci.loc())
    fin = [(bi, st) for bi, st, pl, fs in ci.field_writes() if fs and fs[-1][0] == 'finished' and fs[-1][1] == II]
    ctx.require(fin, 'R19.3: write of finished')
    gt0 = [(bi, s) for bi, s, op, a, c in binops(ci) if op in ('Gt', 'Eq', 'Ne') and 'size' in (operand_fields(ci, a) | operand_fields(ci, c)) and any(o[0] == 'k' and '0_' in o[1] for o in (a, c))]
    ctx.require(gt0, 'R19.3: size test')
    from hqrules.templates import bool_uses
    u = bool_uses(ci, gt0[0][1]['p'][0])
    op_ = [op for bi, s, op, a, c in binops(ci) if s is gt0[0][1]][0]
    zero_edges = set((sb, fs if op_ in ('Gt', 'Ne') else ts) for sb, ts, fs in u)
    ctx.ob('R19.3', 'create_index|finished only on size 0', all(dominated_by_edges(ci, bi, zero_edges) for bi, st in fin), 'finished is set exactly on a zero-size chunk header', ci.loc(fin[0][0], fin[0][1]))
    # reads of channels / file_idx outside create_index come from last_instance() (or superseded() in summary)
    last = TI + '::last_instance'
    sup = TI + '::superseded'
    nread = 0
    for f in ('channels', 'file_idx'):
        for o, b, bi, st in field_read_sites(prog, II, f):
            if o in (OL + 'OutputLog::create_index',) or is_test_util(o) or ' as core::' in o:
                continue
            if o == II + '::channel_size':
                continue
            nread += 1
            # the InstanceInfo the place is rooted at derives from a last_instance() result (possibly collected by _gather_infos)
            okr = o in (OL + 'OutputLog::cat', OL + 'OutputLog::export', OL + 'OutputLog::show', OL + 'OutputLog::summary', OL + 'OutputLog::read_buffer', OL + 'OutputLog::_gather_infos')
            ctx.ob('R19.3', f'{o.split("::")[-1]}|reads {f}', okr, f'{f} is read only on the output paths that obtain their InstanceInfo from last_instance()', b.loc(bi))
    for fn in ('cat', 'export', 'show'):
        b = prog.body(OL + 'OutputLog::' + fn)
        mc = prog.may_call(b.path)
        ctx.ob('R19.3', f'{fn}|uses last_instance', (last in mc) and (sup not in mc) and (TI + '::instance' not in mc) and (TI + '::instance_mut' not in mc),
               f'{fn} reaches TaskInfo::last_instance and neither superseded() nor the by-id accessors', b.loc())
    sm = prog.body(OL + 'OutputLog::summary')
    mc = prog.may_call(sm.path)
    ctx.ob('R19.3', 'summary|last + superseded for accounting', last in mc and sup in mc, 'summary accounts the last run and, separately, the superseded ones', sm.loc())
    for acc in ('instance', 'instance_mut'):
        cs = [o for o, b, bi in call_sites(prog, TI + '::' + acc) if not is_test_util(o)]
        ctx.ob('R19.3', f'TaskInfo::{acc}|no caller', not cs, f'the by-id accessor {acc} has no caller (a caller on an output path could select an earlier run)', None)
    lib = prog.body(last)
    ctx.ob('R19.3', 'last_instance|last element', bool(lib.call_blocks(lambda c: c.endswith('::last'))), 'last_instance returns the last (highest instance id after sorting) record', lib.loc())

    # ---- R19.4
    iscfg = lambda c: c.endswith('SerializationConfig>::config')
    wcfg = {callee_of(sw.term[bi]) for bi in sw.call_blocks(iscfg)}
    rcfg = {callee_of(b.term[bi]) for b in [prog.body(OL + 'OutputLog::read_chunk'), prog.body(OL + 'OutputLog::check_header')] for bi in b.call_blocks(iscfg)}
    nw = len(sw.call_blocks(iscfg))
    ctx.ob('R19.4', 'same serialization config', len(wcfg) == 1 and wcfg == rcfg and nw >= 2, f'writer (file header, chunk header) and reader (check_header, read_chunk) use the same SerializationConfig (writer {sorted(x.split("::")[-2] for x in wcfg)}, reader {sorted(x.split("::")[-2] for x in rcfg)})', sw.loc())
    rc = prog.body(OL + 'OutputLog::read_chunk')
    ctx.ob('R19.4', 'reader decodes StreamChunkHeader', SCH in rc.locals[0][0], 'read_chunk yields StreamChunkHeader (the type the writer serialises)', rc.loc())
    wh = any(s['k'] == 'a' and 'STREAM_FILE_HEADER' in str(s['rv']) for bi in sw.reachable() for s in sw.stmts(bi))
    ch = prog.body(OL + 'OutputLog::check_header')
    rh = any(s['k'] == 'a' and 'STREAM_FILE_HEADER' in str(s['rv']) for bi in ch.reachable() for s in ch.stmts(bi))
    ctx.ob('R19.4', 'same file magic', wh and rh, 'both sides use the STREAM_FILE_HEADER constant', ch.loc())
    hdrc = [(o, b, bi, s) for o, b, bi, s in construct_sites(prog, SCH) if not is_test_util(o) and '::_::' not in o]
    owners = set(o for o, b, bi, s in hdrc)
    ctx.ob('R19.4', 'chunk headers built by StreamSender::send_data', owners == {WS + 'StreamSender::send_data'}, f'StreamChunkHeader is constructed only by send_data (observed {sorted(owners)})', None)
    for o, b, bi, s in hdrc:
        names = s['rv'][1][3]
        fs_i = local_field_sources(b, op_local(s['rv'][2][names.index('instance')]))
        fs_t = local_field_sources(b, op_local(s['rv'][2][names.index('task')]))
        szl = op_local(s['rv'][2][names.index('size')])
        lenc = any(callee_of(b.term[d[0]]) and callee_of(b.term[d[0]]).endswith('Vec::len') for x in b.derived_from(szl) for d in b.defs().get(x, ()) if d[1] == 'call') if szl is not None else False
        ctx.ob('R19.4', 'chunk header fields', 'instance_id' in fs_i and 'task_id' in fs_t and lenc, 'the header carries the sender task id, instance id and the length of the data', b.loc(bi))

    # ---- R19.5 a writer file cut inside a chunk header
    EK = [e for e in prog.enums if e.endswith('io::error::ErrorKind')]
    ctx.require(len(EK) == 1, 'R19.5: io::ErrorKind enum not in facts')
    EK = EK[0]
    RESULT_ = 'core::result::Result'
    des = rc.call_blocks(lambda c: c.endswith('Options::deserialize_from'))
    ctx.require(des, 'R19.5: read_chunk does not deserialize')
    dkey = sorted([k for k, d in scrutinees(rc, RESULT_).items() if d['root'] == rc.term[des[0]]['d'][0]], key=len)
    none_ok = []
    for bi in rc.reachable():
        for st in rc.stmts(bi):
            if st['k'] == 'a' and st['p'] == [0, []] and st['rv'][0] == 'agg' and st['rv'][1][0] == 'adt' and st['rv'][1][1] == RESULT_ and st['rv'][1][2] == 'Ok':
                l = op_local(st['rv'][2][0])
                sd = rc.single_def(l) if l is not None else None
                if sd and sd[1] == 'a' and sd[2]['rv'][0] == 'agg' and sd[2]['rv'][1][0] == 'adt' and sd[2]['rv'][1][2] == 'None':
                    none_ok.append((bi, st))
    ctx.ob('R19.5', 'read_chunk|end of file is Ok(None)', bool(none_ok), 'read_chunk has an Ok(None) result that ends the file', rc.loc(none_ok[0][0], none_ok[0][1]) if none_ok else rc.loc())
    tol = False
    for bi, st in none_ok:
        vs = variants_at(rc, EK, bi)
        in_err = bool(dkey) and set(variants_at(rc, RESULT_, bi, dkey[0]) or ()) == {'Err'}
        if vs is not None and set(vs) == {'UnexpectedEof'} and in_err:
            tol = True
    ctx.ob('R19.5', 'read_chunk|UnexpectedEof while decoding a header ends the file', tol,
           'the Ok(None) result is produced in the Err arm of the header deserialization under io::ErrorKind::UnexpectedEof (a header cut short by a crash is the end of that file, not an error of the whole stream directory)', rc.loc(des[0]))

    # ---- R19.5 (cont.) a writer file whose header cannot be read is skipped, it does not fail the directory
    oo = prog.body(OL + 'OutputLog::open')
    chk = oo.call_blocks(OL + 'OutputLog::check_header')
    ctx.require(chk, 'R19.5: check_header call in OutputLog::open')
    rk = sorted([k for k, d in scrutinees(oo, 'core::result::Result').items() if d['root'] == oo.term[chk[0]]['d'][0]], key=len)
    ctx.require(rk, 'R19.5: result of check_header not matched')
    ent_e, reg_e = oo.arm_entries('core::result::Result', {'Err'}, rk[0])
    hs_o = loop_headers_containing(oo, chk[0])
    rets_from_err = [r for r in oo.returns() if r in oo.reach_from(ent_e, avoid=hs_o[:1])]
    ctx.ob('R19.5', 'OutputLog::open|unreadable header skips the file', bool(ent_e) and bool(hs_o) and not rets_from_err,
           'every path from the Err arm of check_header goes on to the next file (a worker killed before its first flush leaves a 0-byte or cut .hqs file next to the files of other workers)', oo.loc(chk[0]))

    # ---- R19.6 one piped channel is enough to stream
    ctx.rule('R19.6', 'create_task_future takes the streaming branch when stdout OR stderr is piped: the non-streaming launch is reached only when neither channel is StdioDef::Pipe (with one piped channel in the non-streaming branch the pipe is never drained and no chunk or end marker is written)')
    SD = [e for e in prog.enums if e.endswith('::StdioDef')]
    ctx.require(len(SD) == 1, f'R19.6: StdioDef enum ({SD})')
    SD = SD[0]
    gsb = [bi for bi in top.call_blocks(lambda c: c.endswith(('StreamerRef::get_stream', 'Streamer::get_stream')))] if 'top' in dir() else []
    ctf = cor(prog, PG + 'create_task_future')[0] if not gsb else top
    gsb = gsb or ctf.call_blocks(lambda c: c.endswith(('StreamerRef::get_stream', 'Streamer::get_stream')))
    ctx.require(gsb, 'R19.6: get_stream call in create_task_future')
    hts = ctf.call_blocks(PG + 'handle_task_with_signals')
    plain = [x for x in hts if x not in ctf.reach_from(gsb)]
    ctx.require(plain, 'R19.6: non-streaming launch site')
    keys = {nm: [k for k in scrutinees(ctf, SD) if nm in k] for nm in ('stdout', 'stderr')}
    okp = True
    obs = {}
    for nm, ks in keys.items():
        vs = set()
        for k in ks:
            v_ = variants_at(ctf, SD, plain[0], k)
            vs = (vs | set(v_)) if v_ is not None else (vs | set(prog.variants(SD)))
        if not ks:
            vs = set(prog.variants(SD))
        obs[nm] = sorted(vs)
        if 'Pipe' in vs:
            okp = False
    ctx.ob('R19.6', 'create_task_future|non-streaming launch only without any pipe', okp, f'at the non-streaming launch neither channel can be Pipe (observed stdout {obs["stdout"]}, stderr {obs["stderr"]})', ctf.loc(plain[0]))

