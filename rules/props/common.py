"""Shared anchors (def paths) and effects used by several property modules."""
from hqrules.templates import Effect

T = 'tako::internal::'
TRS = T + 'server::task::TaskRuntimeState'
TASK = T + 'server::task::Task'
REACTOR = T + 'server::reactor::'
MAPPING = T + 'scheduler::mapping::'
WORKER = T + 'server::worker::Worker::'
CORE = T + 'server::core::Core::'
TASKMAP = T + 'server::taskmap::TaskMap::'
WORKERMAP = T + 'server::workermap::WorkerMap::'
TQS = T + 'scheduler::taskqueue::TaskQueues::'
TQ = T + 'scheduler::taskqueue::TaskQueue::'
COMM = T + 'server::comm::Comm::'
EVP = 'tako::events::EventProcessor::'
HQ = 'hyperqueue::server::'
JTS = HQ + 'job::JobTaskState'
JOB = HQ + 'job::Job::'
STREAMER = HQ + 'event::streamer::EventStreamer::'

HASH_REMOVE = {'hashbrown::map::HashMap::remove', 'std::collections::hash::map::HashMap::remove',
               'hashbrown::map::HashMap::remove_entry'}
HASH_INSERT = {'hashbrown::map::HashMap::insert', 'std::collections::hash::map::HashMap::insert'}

E_W_INS = Effect('W.ins', callees={WORKER + 'insert_sn_task'})
E_W_REM = Effect('W.rem', callees={WORKER + 'remove_sn_task'})
E_W_PF_ADD = Effect('W.pf+', callees={WORKER + 'insert_prefill_task'})
E_W_PF_REM = Effect('W.pf-', callees={WORKER + 'remove_prefill_task'})
E_W_PF2AS = Effect('W.pf->as', callees={WORKER + 'task_from_prefilled_to_started'})
E_W_MN_SET = Effect('W.mn+', callees={WORKER + 'set_mn_task'})
E_W_MN_RESET = Effect('W.mn-', callees={WORKER + 'reset_mn_task'})
E_R_REM = Effect('R-', field_calls=[(HASH_REMOVE, 'redirects')])
E_R_INS = Effect('R+', field_calls=[(HASH_INSERT, 'redirects')])
E_TRY_RM_REDIR = Effect('try_remove_redirection', callees={REACTOR + 'try_remove_redirection'})
E_Q_ADD = Effect('Q+', callees={TQS + 'add_ready_task'})
E_Q_REM = Effect('Q-', callees={TQ + 'remove'})
E_QPF_REM = Effect('Qpf-', callees={TQ + 'remove_prefilled'})
E_QPF2Q = Effect('Qpf->Q', callees={TQ + 'move_prefilled_task_to_ready'})
E_DEL = Effect('DEL', callees={CORE + 'remove_task', CORE + 'remove_tasks_batched'})
E_II = Effect('II', callees={TASK + '::increment_instance_id'})
E_MSG = Effect('MSG', callees={COMM + 'send_worker_message'})
E_EV_STARTED = Effect('EV.started', callees={EVP + 'on_task_started'})
E_EV_FINISHED = Effect('EV.finished', callees={EVP + 'on_task_finished'})
E_EV_ERROR = Effect('EV.error', callees={EVP + 'on_task_error'})
E_EV_LOST = Effect('EV.worker_lost', callees={EVP + 'on_worker_lost'})
E_CLIENT = Effect('client', callees={COMM + 'client'})


def is_test_util(path):
    """tako::internal::tests::{utils,integration} are test utilities compiled into the library
    (pub mod tests); they are not on any server / worker execution path."""
    return '::tests::' in path or path.startswith('tako::internal::tests')


def fn_short(path):
    return path.split('::')[-1]
