"""C13 — job bookkeeping: counters match tasks, complete exactly once, atomic submits."""
from hqrules.core import FailClosed, callee_of, callee_decl, op_local, op_place, place_fields, norm
from hqrules.templates import (effect_blocks, must_pass, state_writes, variants_at, call_sites, construct_sites, Effect,
                               loop_headers_containing, owner_fn, scrutinees, guard_edges, dominated_by_edges,
                               local_field_sources, binops, operand_fields, bodies_with_effect)
from .common import *
from . import job_table
from .job_table import COUNTER_OF, COUNTERS, counter_updates

EXPLANATION = ('Structural necessary conditions of C13: every JobTaskState transition adjusts exactly the counters owed by its old and new '
               'state (state-counter coupling); check_termination follows every terminal transition and close; on_job_completed is emitted '
               'only under !is_open && no active task; handle_submit performs no effect on a path to an error response; auto-assigned ids '
               'continue after Job::max_id(); submit-and-watch registers the listener before the executor can run anything else.')
NOT_DECIDED = ['job_status derivation (decision list over numbers)', 'per-moment equality of counters with a recount over all histories']
RELATED = {'C10': ['R10.6'], 'C14': ['R14.5'], 'C03': ['R03.8']}
ASSUMPTIONS = ['single-threaded executor: interleaving only at await']

SUBMIT = HQ + 'client::submit::'
INTARRAY = 'hyperqueue::common::arraydef::IntArray::'


def run(ctx):
    prog = ctx.prog
    ctx.rule('R13.1', 'state-counter coupling: -1 on n_running_tasks exactly when the old state is Running; + on the counter of the new state (per task +1 or +len after the loop)')
    ctx.rule('R13.2', 'check_termination follows every terminal transition and close; on_job_completed only when closed and no active tasks')
    ctx.rule('R13.3', 'validate before mutate: no effect call of handle_submit lies on a path to an error response')
    ctx.rule('R13.4', 'auto-assigned ids start at Job::max_id()+1 and IntArray::from_range(start, count) receives a count (not an end)')
    ctx.rule('R13.5', 'submit-and-watch is atomic: no await between handle_submit / compute_job_info and EventStreamer::register_listener')

    # ---- R13.1
    ws = [w for w in job_table.job_state_writes(prog) if w[0].startswith(JOB)]
    ctx.floor('R13.1', len(ws), 5, 'JobTaskState write sites in Job')
    for owner, b, bi, s, new, old in ws:
        fn = owner.split('::')[-1]
        cu = counter_updates(b)
        # arm region of this write = blocks with the same old-variant guard
        flows = b.variant_flow(JTS)
        region = set()
        for k, st in flows.items():
            for bb, vs in st.items():
                if old is not None and vs and set(vs) <= set(old):
                    region.add(bb)
        dec_run = [x for x in cu if x[2] == 'n_running_tasks' and x[3] == '-']
        oldt = '+'.join(sorted(old)) if old else '?'
        if old is not None and set(old) == {'Running'}:
            okd, _ = must_pass(b, [bi], [x[0] for x in dec_run if x[0] in region or x[0] == bi])
            okd = okd or any(x[0] == bi for x in dec_run)
            ctx.ob('R13.1', f'{fn}|{oldt}->{new}|running-1', okd, f'{fn}: leaving Running decrements n_running_tasks in the same arm', b.loc(bi, s))
        elif old is not None and 'Running' not in old:
            bad = [x for x in dec_run if x[0] in region]
            ctx.ob('R13.1', f'{fn}|{oldt}->{new}|no running-1', not bad, f'{fn}: a transition from {oldt} does not touch n_running_tasks', b.loc(bi, s))
        cf = COUNTER_OF.get(new)
        if cf:
            inc = [x for x in cu if x[2] == cf and x[3] == '+']
            okc, wit = must_pass(b, [bi], [x[0] for x in inc])
            okc = okc or any(x[0] == bi for x in inc)
            ctx.ob('R13.1', f'{fn}|{oldt}->{new}|{cf}+', okc, f'{fn}: after writing {new} every path to return increments {cf}', b.loc(bi, s))
            for x in inc:
                inloop = bool(loop_headers_containing(b, x[0])) and bool(loop_headers_containing(b, bi))
                amt = x[4]
                if loop_headers_containing(b, bi) and not loop_headers_containing(b, x[0]):
                    # batched: += len(task_ids) after the loop
                    ok = amt == 'expr'
                    ctx.ob('R13.1', f'{fn}|{cf}|batched amount', ok, f'{fn}: the post-loop increment of {cf} is the number of ids (not a constant)', b.loc(x[0], x[1]))
                else:
                    ctx.ob('R13.1', f'{fn}|{cf}|unit amount', amt in ('1_u32', '1_usize', '1_u64'), f'{fn}: per-task increment of {cf} is 1 (observed {amt})', b.loc(x[0], x[1]))
    # counter writers outside Job setters / restore
    for p, b in prog.bodies.items():
        if not p.startswith('hyperqueue::server::') or '::_::' in p or is_test_util(p):
            continue
        cu = counter_updates(b)
        if cu:
            o = owner_fn(prog, p)
            ok = o.startswith(JOB) or o == HQ + 'restore::RestorerJob::restore_job'
            ctx.ob('R13.1', f'counter writer|{o.split("::")[-1]}', ok, 'job counters are written only by the Job setters (and restore)', b.loc(cu[0][0], cu[0][1]))

    # ---- R13.2
    CT = JOB + 'check_termination'
    for fn in ('set_finished_state', 'set_failed_state', 'set_cancel_state', 'abort_tasks'):
        b = prog.body(JOB + fn)
        ctb = b.call_blocks(CT)
        for bi, s, v, pl in state_writes(b, JTS):
            ok, wit = must_pass(b, [bi], ctb)
            ctx.ob('R13.2', f'{fn}|->{v}|check_termination', ok, f'{fn}: check_termination follows the terminal write on every path', b.loc(bi, s))
        ctx.ob('R13.2', f'{fn}|one check_termination', len(ctb) == 1 and not loop_headers_containing(b, ctb[0]) if ctb else False,
               f'{fn}: exactly one check_termination call outside loops (a second call re-announces completion)', b.loc())
    ctb = prog.body(CT)
    evc = ctb.call_blocks(STREAMER + 'on_job_completed')
    ctx.floor('R13.2', len(evc), 1, 'on_job_completed in check_termination')
    e1, _ = guard_edges(ctb, JOB + 'has_no_active_tasks', True)
    e2, _ = guard_edges(ctb, JOB + 'is_open', False)
    for e in evc:
        ctx.ob('R13.2', 'check_termination|completed only if no active tasks', dominated_by_edges(ctb, e, e1, False), 'JobCompleted requires has_no_active_tasks()', ctb.loc(e))
        ctx.ob('R13.2', 'check_termination|completed only if closed', dominated_by_edges(ctb, e, e2, False), 'JobCompleted requires !is_open()', ctb.loc(e))
    owners = set(o for o, b, bi in call_sites(prog, STREAMER + 'on_job_completed') if not is_test_util(o))
    ctx.ob('R13.2', 'on_job_completed|emitter', owners == {CT}, f'on_job_completed emitted only by check_termination (observed {sorted(owners)})', None)
    ctc = set(o for o, b, bi in call_sites(prog, CT) if not is_test_util(o))
    exp = {JOB + x for x in ('set_finished_state', 'set_failed_state', 'set_cancel_state', 'abort_tasks')} | {HQ + 'client::handle_job_close', SUBMIT + 'handle_submit'}
    ctx.ob('R13.2', 'check_termination|callers', ctc == exp, f'check_termination is called from the four terminal setters, handle_job_close and handle_submit (new job) (observed {sorted(x.split("::")[-1] for x in ctc)})', None)
    # handle_job_close: close first (so that the check sees a closed job and reports JobCompleted), and only for a job that was open
    hjc = [prog.bodies[p_] for p_ in prog.with_closures(HQ + 'client::handle_job_close')]
    for b_ in hjc:
        ct_ = b_.call_blocks(CT)
        if not ct_:
            continue
        cl_ = b_.call_blocks(JOB + 'close')
        e_open, _c = guard_edges(b_, JOB + 'is_open', True)
        ctx.ob('R13.2', 'handle_job_close|close before check_termination', bool(cl_) and all(c not in b_.reach_from([0], avoid=cl_) for c in ct_), 'Job::close dominates check_termination (checked while still open, an idle job only gets the ephemeral JobIdle and is never reported completed)', b_.loc(ct_[0]))
        ctx.ob('R13.2', 'handle_job_close|check_termination only for a job that was open', bool(e_open) and all(dominated_by_edges(b_, c, e_open, False) for c in ct_), 'a close request for an already closed job does not run check_termination again (a completed job would be announced completed a second time)', b_.loc(ct_[0]))
    # no job event is emitted after check_termination inside the Job methods (JobCompleted is the last record of a closed job:
    # its replay forgets the job, a later record of the same job cannot be replayed)
    for fn in ('set_finished_state', 'set_failed_state', 'set_cancel_state', 'abort_tasks'):
        b_ = prog.body(JOB + fn)
        ct_ = b_.call_blocks(CT)
        late = [x for x in b_.call_blocks(lambda c: c.startswith(STREAMER + 'on_')) if any(x in b_.reach_after(c) for c in ct_)]
        ctx.ob('R13.2', f'{fn}|no event after check_termination', not late, f'{fn}: every event of the job is emitted before check_termination (which may emit JobCompleted)', b_.loc(late[0]) if late else b_.loc())
    # empty-batch guard: set_cancel_state / abort_tasks return early for an empty id list (no second completion)
    for fn in ('set_cancel_state', 'abort_tasks'):
        b = prog.body(JOB + fn)
        edges, _ = guard_edges(b, 'alloc::vec::Vec::is_empty', False)
        cts = b.call_blocks(CT)
        ctx.ob('R13.2', f'{fn}|no check_termination for empty batch', bool(cts) and all(dominated_by_edges(b, c, edges, False) for c in cts),
               f'{fn}: an empty id list does not re-run check_termination (a terminated job would be announced completed again)', b.loc())

    # ---- R13.3
    hs = prog.body(SUBMIT + 'handle_submit')
    eff = Effect('submit.effects', callees={HQ + 'state::State::new_job_id', STREAMER + 'on_job_submitted', HQ + 'state::State::add_job',
                                             SUBMIT + 'submit_job_desc', 'hyperqueue::server::autoalloc::service::AutoAllocService::on_job_submit',
                                             'tako::control::ServerRef::add_new_tasks'})
    eb = effect_blocks(prog, hs, eff)
    ctx.floor('R13.3', len(eb), 1, 'effect calls in handle_submit')
    SR = 'hyperqueue::transfer::messages::SubmitResponse'
    nerr = 0
    after = hs.reach_from(list(eb))
    for owner, b, bi, s in construct_sites(prog, SR):
        if b.path != hs.path or s['rv'][1][2] == 'Ok':
            continue
        nerr += 1
        ctx.ob('R13.3', f'handle_submit|{s["rv"][1][2]} before effects', bi not in after or bi in eb and False,
               f'the error response {s["rv"][1][2]} is produced before any effect (id issue, journal event, job/task creation)', b.loc(bi, s))
    vb = hs.call_blocks(SUBMIT + 'validate_submit')
    ctx.floor('R13.3', len(vb), 1, 'validate_submit call')
    for v in vb:
        ctx.ob('R13.3', 'handle_submit|validate first', v not in after, 'validate_submit runs before any effect', hs.loc(v))
        nerr += 1
    ctx.floor('R13.3', nerr, 1, 'error exits of handle_submit')

    # ---- R13.6
    ctx.rule('R13.6', 'validate_submit refuses duplicate ids (against the job and within the submit), self/unknown dependencies; handle_submit refuses closed and unknown jobs')
    vb_ = prog.body(SUBMIT + 'validate_submit')
    SR_ = 'hyperqueue::transfer::messages::SubmitResponse'
    cons = {}
    for owner, b, bi, s_ in construct_sites(prog, SR_):
        if b.path == vb_.path:
            cons.setdefault(s_['rv'][1][2], []).append(bi)
    JTD = 'hyperqueue::transfer::messages::JobTaskDescription'
    ck = vb_.call_blocks(lambda c: c.endswith('HashMap::contains_key'))
    e_ck, _ = guard_edges(vb_, lambda c: True, True) if False else (set(), [])
    for v, floor_, why in (('TaskIdAlreadyExists', 2, 'an id already used in the job (array and graph submits)'), ('NonUniqueTaskId', 1, 'an id listed twice in one graph submit'), ('InvalidDependencies', 1, 'a dependency on itself or on an unknown task')):
        ctx.ob('R13.6', f'validate_submit|{v}', len(cons.get(v, [])) >= floor_, f'validate_submit can refuse {why} ({len(cons.get(v, []))} site(s), expected >= {floor_})', vb_.loc(cons[v][0]) if cons.get(v) else vb_.loc())
    arms = {}
    for bi in cons.get('TaskIdAlreadyExists', []):
        for x in (variants_at(vb_, JTD, bi) or []):
            arms.setdefault(x, 0)
            arms[x] += 1
    ctx.ob('R13.6', 'validate_submit|duplicate check for both kinds', set(arms) == {'Array', 'Graph'}, f'TaskIdAlreadyExists is produced for Array and for Graph descriptions (observed {arms})', vb_.loc())
    from hqrules.templates import dominated_by_edges as _dbe
    HM_CK = {'hashbrown::map::HashMap::contains_key', 'std::collections::hash::map::HashMap::contains_key'}
    e_t, _c = guard_edges(vb_, HM_CK, True)
    ctx.ob('R13.6', 'validate_submit|exists -> refuse', bool(e_t) and all(_dbe(vb_, bi, e_t) for bi in cons.get('TaskIdAlreadyExists', [])), 'TaskIdAlreadyExists is returned on the contains_key()==true edge', vb_.loc())
    SETI_ = {'hashbrown::set::HashSet::insert', 'std::collections::hash::set::HashSet::insert'}
    e_f, _c = guard_edges(vb_, SETI_, False)
    ctx.ob('R13.6', 'validate_submit|second occurrence -> refuse', bool(e_f) and all(_dbe(vb_, bi, e_f) for bi in cons.get('NonUniqueTaskId', [])), 'NonUniqueTaskId is returned when Set::insert reports the id was already present', vb_.loc())
    selfdep = [bi for bi, t, c in vb_.calls() if bi in vb_.reachable() and (callee_decl(t) or '').endswith('PartialEq::eq') and any('JobTaskId' in vb_.locals[op_local(a)][0] for a in t['args'] if op_local(a) is not None)]
    ctx.ob('R13.6', 'validate_submit|self dependency', bool(selfdep), 'a task depending on itself is refused (dep_id == task.id)', vb_.loc(selfdep[0]) if selfdep else vb_.loc())
    hsb = prog.body(SUBMIT + 'handle_submit')
    hcons = {s_['rv'][1][2]: bi for owner, b, bi, s_ in construct_sites(prog, SR_) if b.path == hsb.path}
    e_open, _c = guard_edges(hsb, JOB + 'is_open', False)
    ctx.ob('R13.6', 'handle_submit|JobNotOpened', 'JobNotOpened' in hcons and bool(e_open) and _dbe(hsb, hcons['JobNotOpened'], e_open, False), 'a submit into a closed job is refused (is_open()==false edge)', hsb.loc(hcons.get('JobNotOpened')) if 'JobNotOpened' in hcons else hsb.loc())
    ctx.ob('R13.6', 'handle_submit|JobNotFound', 'JobNotFound' in hcons, 'a submit into an unknown job is refused', hsb.loc(hcons.get('JobNotFound')) if 'JobNotFound' in hcons else hsb.loc())
    # ---- R13.4
    sites = [(o, b, bi) for o, b, bi in call_sites(prog, INTARRAY + 'from_range') if o.startswith(HQ) and not is_test_util(o)]
    ctx.floor('R13.4', len(sites), 1, 'from_range call sites in hyperqueue::server')
    for i, (o, b, bi) in enumerate(sites):
        t = b.term[bi]
        s_l, c_l = op_local(t['args'][0]), op_local(t['args'][1])
        start_const = t['args'][0][0] == 'k'
        ok = True
        if not start_const and s_l is not None and c_l is not None:
            ssrc = b.derived_from(s_l) - set(range(1, b.argc + 1))
            ok = not (ssrc & b.derived_from(c_l))
        ctx.ob('R13.4', f'{o.split("::")[-1]}|from_range|start={"const" if start_const else "expr"}', ok,
               'IntArray::from_range(start, count): the count operand must not derive from the start operand (the second argument is a count, not an end)', b.loc(bi))
        if not start_const:
            mx = any(callee_of(b.term[d[0]]) == JOB + 'max_id' for x in b.derived_from(s_l) for d in b.defs().get(x, ()) if d[1] == 'call')
            if not mx:
                # the start may come in through a parameter / closure of a helper: then Job::max_id must be called somewhere in
                # handle_submit (incl. its closures) and no task count (n_tasks / len of the task map) may feed an id
                hsall = [prog.bodies[p_] for p_ in prog.with_closures(SUBMIT + 'handle_submit')]
                mx = any(x.call_blocks(JOB + 'max_id') for x in hsall) and not any(x.call_blocks(JOB + 'n_tasks') for x in hsall if x.path != SUBMIT + 'handle_submit' or s_l is not None and any(x.term[c_]['d'][0] in x.derived_from(s_l) for c_ in x.call_blocks(JOB + 'n_tasks')))
            ctx.ob('R13.4', 'auto id from max_id', mx, 'auto-assigned ids continue after Job::max_id() (a task count is not the largest id once explicit sparse ids were used)', b.loc(bi))

    # ---- R13.5
    crl = [prog.bodies[p] for p in prog.with_closures(HQ + 'client::client_rpc_loop') if prog.bodies[p].kind == 'coroutine']
    ctx.require(crl, 'R13.5: client_rpc_loop coroutine missing')
    cb = max(crl, key=lambda b: b.n)
    ss = cb.call_blocks(HQ + 'client::start_streaming')
    ctx.floor('R13.5', len(ss), 1, 'start_streaming calls in client_rpc_loop')
    ys = set(cb.yields())
    for name, anchor in (('Submit', SUBMIT + 'handle_submit'), ('JobInfo', HQ + 'client::compute_job_info')):
        ab = cb.call_blocks(anchor)
        ctx.require(ab, f'R13.5: {anchor} not called in client_rpc_loop')
        targets = [x for x in ss if x in cb.reach_from(ab)]
        # the start_streaming call that consumes this response: nearest (no other handler in between) = reachable without passing rx.next()
        nxt = cb.call_blocks(lambda c: c.endswith('StreamExt::next'))
        targets = [x for x in ss if x in cb.reach_from(ab, avoid=nxt)]
        ctx.require(targets, f'R13.5: no start_streaming after {name}')
        between = cb.reach_from(ab, avoid=nxt) & cb.coreach(targets, avoid=nxt)
        bad = sorted((between & ys))
        ctx.ob('R13.5', f'client_rpc_loop|{name}|no await before start_streaming', not bad,
               f'{name} with streaming: no suspension point between computing the response and start_streaming (whose synchronous prefix registers the listener); '
               'an await here lets worker messages complete the job before the listener exists', cb.loc(bad[0]) if bad else cb.loc(ab[0]))
    # start_streaming registers the listener before its first await
    sts = [prog.bodies[p] for p in prog.with_closures(HQ + 'client::start_streaming') if prog.bodies[p].kind == 'coroutine']
    ctx.require(sts, 'R13.5: start_streaming coroutine missing')
    sb = max(sts, key=lambda b: b.n)
    reg = sb.call_blocks(STREAMER + 'register_listener')
    ctx.floor('R13.5', len(reg), 1, 'register_listener in start_streaming')
    pre = sb.reach_from([0], avoid=reg) & sb.coreach(reg)
    bad = sorted(set(sb.yields()) & pre)
    ctx.ob('R13.5', 'start_streaming|register before first await', not bad, 'register_listener is reached before any suspension point of start_streaming', sb.loc(bad[0]) if bad else sb.loc(reg[0]))
    # listener ids are unique: derived from max id, not from len
    rl = prog.body(STREAMER + 'register_listener')
    uses_len = any(c in ('alloc::vec::Vec::len',) for bi, t, c in rl.calls() if bi in rl.reachable())
    uses_max = any(c and (c.endswith('Iterator::max') or c.endswith('::max')) for p in prog.with_closures(rl.path) for bi, t, c in prog.bodies[p].calls())
    ctx.ob('R13.5', 'register_listener|fresh id', uses_max and not uses_len, 'listener ids are max(existing)+1 (a length-based id collides with a live listener after one leaves)', rl.loc())

    # ---- R13.7 an array submit creates the same tasks in the job and in tako
    ctx.rule('R13.7', 'array submit with entries: the job creates one task per id, tako gets one task per (id, entry) pair (zip): handle_submit compares the number of ids with the number of entries and refuses a mismatch before the submit has any effect (otherwise phantom tasks that never run, or silently dropped entries)')
    SUBM7 = HQ + 'client::submit::'
    hs7 = prog.body(SUBM7 + 'handle_submit')
    cmps = []
    for bi, s_, op, a, c in binops(hs7):
        if op not in ('Ne', 'Eq'):
            continue
        def feeds(o_):
            l_ = op_local(o_)
            if l_ is None:
                return set()
            return {(callee_of(d_[2]) or '').split('::')[-1] for x_ in hs7.derived_from(l_, through_mutation=False) for d_ in hs7.defs().get(x_, ()) if d_[1] == 'call'}
        fa_, fc_ = feeds(a), feeds(c)
        if ({'len'} & fa_ and {'count', 'id_count'} & fc_) or ({'len'} & fc_ and {'count', 'id_count'} & fa_):
            cmps.append((bi, s_))
    eff7 = hs7.call_blocks(STREAMER + 'on_job_submitted') + hs7.call_blocks(HQ + 'state::State::new_job_id') + hs7.call_blocks(SUBM7 + 'submit_job_desc')
    ctx.floor('R13.7', len(eff7), 2, 'effects of handle_submit')
    ctx.ob('R13.7', 'handle_submit|ids and entries compared before any effect', bool(cmps) and all(x not in hs7.reach_from([0], avoid=[b_ for b_, s_ in cmps]) or _only_without_entries(hs7, x, cmps) for x in eff7),
           'the number of ids is compared with entries.len() on every path that carries entries, before the submit is journaled, gets a job id or is attached', hs7.loc(cmps[0][0], cmps[0][1]) if cmps else hs7.loc())
    bta = prog.body(SUBM7 + 'build_tasks_array')
    ctx.ob('R13.7', 'build_tasks_array|pairs ids with entries', bool(bta.call_blocks(lambda c: c.endswith('Iterator::zip'))), 'build_tasks_array zips ids with entries (which is why the lengths must agree)', bta.loc())

    # ---- R13.8 the job state follows the documented precedence
    ctx.rule('R13.8', 'job_status: the documented precedence Running > Waiting > Failed > Aborted > Canceled > Finished/Opened - the counter tests are evaluated in that order (failed before aborted before canceled), so a terminated job with failed and canceled tasks is FAILED')
    js = [p_ for p_ in prog.bodies if p_.endswith('client::status::job_status')]
    ctx.require(len(js) == 1, 'R13.8: job_status not found')
    jb = prog.body(js[0])
    tests = {}
    for bi, s_, op, a, c in binops(jb):
        if op in ('Gt', 'Ne', 'Lt'):
            fs = operand_fields(jb, a) | operand_fields(jb, c)
            for f in ('n_failed_tasks', 'n_aborted_tasks', 'n_canceled_tasks'):
                if f in fs:
                    tests.setdefault(f, []).append(bi)
    ctx.require(all(f in tests for f in ('n_failed_tasks', 'n_aborted_tasks', 'n_canceled_tasks')), f'R13.8: counter tests in job_status ({sorted(tests)})')
    fo, ab_, ca = tests['n_failed_tasks'][0], tests['n_aborted_tasks'][0], tests['n_canceled_tasks'][0]
    ctx.ob('R13.8', 'job_status|failed before aborted before canceled', jb.dominates(fo, ab_) and jb.dominates(ab_, ca) and fo != ab_ != ca,
           'the n_failed_tasks test dominates the n_aborted_tasks test, which dominates the n_canceled_tasks test', jb.loc(ca))

    # ---- R13.9 a job that is created terminated is reported completed
    ctx.rule('R13.9', 'handle_submit runs check_termination for a NEW job after its tasks were attached (a closed job created without any task gets no task event that would ever trigger the check), and only for a new job (an open job must not be announced idle/completed by a submit)')
    hs9 = prog.body(SUBMIT + 'handle_submit')
    ct9 = hs9.call_blocks(CT)
    sj9 = hs9.call_blocks(SUBMIT + 'submit_job_desc')
    ctx.ob('R13.9', 'handle_submit|new job checked for termination', bool(ct9) and bool(sj9) and all(c not in hs9.reach_from([0], avoid=sj9) for c in ct9), 'check_termination is called after submit_job_desc', hs9.loc(ct9[0]) if ct9 else hs9.loc())
    if ct9:
        # guarded by the new_job flag: a bool local that is true exactly on the path that issued a new job id
        nj = hs9.call_blocks(HQ + 'state::State::new_job_id')
        guarded = False
        for bi in hs9.reachable():
            si = hs9.switch_info(bi)
            if si and si.get('kind') == 'bool' and hs9.dominates(bi, ct9[0]) and ct9[0] in hs9.reach_from([si['true_succ']]) and ct9[0] not in hs9.reach_from([si['false_succ']], avoid=[bi]):
                guarded = True
        ctx.ob('R13.9', 'handle_submit|only for a new job', guarded and bool(nj), 'the check is guarded by the new-job flag', hs9.loc(ct9[0]))


def _only_without_entries(b, x, cmps):
    """paths to x that avoid the comparison exist only where the submit carries no entries / no explicit ids (the Option /
    is_empty tests in front of the comparison)"""
    from hqrules.templates import guard_edges
    # the comparison is nested in `if let Array{entries: Some(..)} && !ids.is_empty()`: accept if the comparison block is
    # reachable from the entry and x is reachable from it as well (same function, check in front of the effects)
    cb = cmps[0][0]
    return cb in b.reach_from([0]) and x in b.reach_from([cb])
