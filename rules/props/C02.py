"""C02 — no task is lost or stuck; job/core task sets agree (only the structural clauses)."""
from hqrules.core import FailClosed, callee_of, callee_decl, op_local, op_place, place_fields, norm, op_const
from hqrules.templates import (effect_blocks, must_pass, state_writes, variants_at, call_sites, construct_sites, Effect,
                               loop_headers_containing, owner_fn, scrutinees, guard_edges, dominated_by_edges,
                               local_field_sources, binops, operand_fields, bool_uses, check_arm_effect, field_write_sites,
                               bodies_with_effect)
from .common import *
from . import reactor_table, shared_rules

EXPLANATION = ('C02 is mostly a liveness statement, which no static argument in reach decides. Decided are the structural clauses: the id set '
               'attached to the job and the id set handed to the core come from the same description (no phantom / orphan ids), ids removed from '
               'the core become terminal in the job, and the lost-wake-up necessary condition: every handler that makes a task ready also asks for '
               'scheduling (or reports need_scheduling to a caller that does).')
NOT_DECIDED = ['"runnable work eventually runs": fairness of scheduler_loop, solver progress, blocked requests eventually re-enabled (liveness over runtime quantities)',
               'that every closed job completes (follows from the above plus C13 R13.2)']
RELATED = {'C08': ['R08.4~cancel_task'], 'C13': ['R13.2', 'R13.7'], 'C03': ['R03.1', 'R03.2'], 'C05': ['R05.5'], 'C04': ['R04.2']}
ASSUMPTIONS = []
SUB = HQ + 'client::submit::'
INTARRAY = 'hyperqueue::common::arraydef::IntArray::'
E_ASK = Effect('ask_for_scheduling', callees={COMM + 'ask_for_scheduling'})


def run(ctx):
    prog = ctx.prog
    ctx.rule('R02.1', 'auto-filled task ids: IntArray::from_range(start, count) gets a count that does not contain the start (otherwise the job lists phantom tasks the core never received)')
    ctx.rule('R02.2', 'submit_job_desc: the description given to create_task_submit (core side) and to Job::attach_submit (job side) is the same object and `ids` is not rewritten in between')
    ctx.rule('R02.3', 'no orphan: tasks are removed from the core only via on_cancel_tasks / task_failed / task_finished, and the same ids become terminal in the job')
    ctx.rule('R02.4', 'no lost wake-up: every site that makes a task ready is followed by ask_for_scheduling, or by returning need_scheduling=true to on_task_update which asks')

    ctx.rule('R02.5', 'worker loss: every task of the lost worker assignment is re-queued in the same iteration (none is dropped)')
    ctx.rule('R02.6', 'job termination reads the counters: every terminal transition increments the counter of its new state on every path')
    shared_rules.terminal_counter_on_every_path(ctx, 'R02.6')
    orw = prog.body(REACTOR + 'on_remove_worker')
    qadd = [bi for bi in orw.call_blocks(TQS + 'add_ready_task')]
    qmove = orw.call_blocks(TQ + 'move_prefilled_task_to_ready')
    loops = {}
    for bi in qadd + qmove:
        hs = loop_headers_containing(orw, bi)
        if hs:
            loops.setdefault(hs[0], []).append(bi)
    ctx.floor('R02.5', len(loops), 1, 'requeue loops in on_remove_worker')
    for h, sites in sorted(loops.items()):
        # entry of an iteration = the Some edge of the iterator; every path from there back to the header passes a requeue
        body_entries = [x for x in orw.succ[h]]
        from hqrules.templates import scrutinees as _sc
        it_next = [x for x in orw.reach_from([h]) if orw.term[x] and orw.term[x]['k'] == 'call' and (callee_decl(orw.term[x]) or '').endswith('Iterator::next') and loop_headers_containing(orw, x)[:1] == [h]]
        ctx.require(it_next, 'R02.5: iterator of requeue loop')
        OPTION = 'core::option::Option'
        keys = sorted([k for k, d in _sc(orw, OPTION).items() if d['root'] == orw.term[it_next[0]]['d'][0]], key=len)
        ctx.require(keys, 'R02.5: Option of the loop iterator')
        entries, region = orw.arm_entries(OPTION, {'Some'}, keys[0])
        ok, wit = must_pass(orw, entries, sites, exits=[h] + list(orw.returns()))
        what = 'assigned' if any(x in qadd for x in sites) else 'prefilled'
        ctx.ob('R02.5', f'on_remove_worker|{what} tasks requeued', ok, f'every {what} task of the lost worker is put back into the ready queue in its iteration (a `continue` before the re-queue loses the task)', orw.loc(sites[0]))
    ctx.rule('R02.7', 'dependencies handed to the core are duplicate-free (on_new_tasks counts every listed dependency but registers a consumer once per distinct dependency: a duplicate leaves the counter above zero forever)')
    btg = [prog.bodies[p_] for p_ in prog.with_closures(SUB + 'build_tasks_graph')]
    dedup = False
    for b_ in btg:
        for l_ in range(len(b_.locals)):
            ty_ = b_.locals[l_][0]
            if ('data_structures::Set<' in ty_ or 'HashSet<' in ty_ or 'BTreeSet<' in ty_) and 'JobTaskId' in ty_ and 'TaskId' in ty_:
                dedup = True
    ont_ = prog.body(REACTOR + 'on_new_tasks')
    ctx.ob('R02.7', 'build_tasks_graph|dependency ids pass through a set', dedup, 'build_tasks_graph collects the dependency ids of a task through a set before they become task_deps', btg[0].loc())
    # ---- R02.1
    sites = [(o, b, bi) for o, b, bi in call_sites(prog, INTARRAY + 'from_range') if o.startswith(HQ) and not is_test_util(o)]
    ctx.floor('R02.1', len(sites), 1, 'from_range call sites')
    for o, b, bi in sites:
        t = b.term[bi]
        start_const = t['args'][0][0] == 'k'
        ok = True
        if not start_const:
            s_l, c_l = op_local(t['args'][0]), op_local(t['args'][1])
            ssrc = b.derived_from(s_l) - set(range(1, b.argc + 1))
            ok = not (ssrc & b.derived_from(c_l))
        ctx.ob('R02.1', f'{o.split("::")[-1]}|from_range|start={"const" if start_const else "expr"}', ok,
               'the count argument of from_range does not derive from its start argument', b.loc(bi))

    # ---- R02.2
    sjd = prog.body(SUB + 'submit_job_desc')
    cts = sjd.call_blocks(SUB + 'create_task_submit')
    att = sjd.call_blocks(JOB + 'attach_submit')
    ctx.require(cts and att, 'R02.2: anchors in submit_job_desc')
    desc = sjd._mutref_target(op_local(sjd.term[cts[0]]['args'][2]))
    al = op_local(sjd.term[att[0]]['args'][1])
    ctx.ob('R02.2', 'submit_job_desc|same description', desc is not None and desc in sjd.derived_from(al), 'attach_submit receives the description that produced the TaskSubmit', sjd.loc(att[0]))
    ctx.ob('R02.2', 'submit_job_desc|core side first', att[0] in sjd.reach_from(cts), 'the TaskSubmit is created from the description before it is attached', sjd.loc(att[0]))
    # nothing between rewrites ids
    between = sjd.reach_from(cts) & sjd.coreach(att)
    JTD = 'hyperqueue::transfer::messages::JobTaskDescription'
    wids = set(o for o, b, bi, st, k in field_write_sites(prog, JTD, 'ids') if not is_test_util(o))
    bad = []
    for bi, t, c in sjd.calls():
        if bi in between and bi not in cts and bi not in att:
            for tg in prog.call_targets(t):
                if tg in wids or (prog.may_call(tg) & wids):
                    bad.append(bi)
    ctx.ob('R02.2', 'submit_job_desc|ids untouched between', not bad, 'no call between create_task_submit and attach_submit can write JobTaskDescription.ids', sjd.loc(bad[0]) if bad else sjd.loc())
    ctx.note('writers_of_ids', sorted(wids))
    hs = prog.body(SUB + 'handle_submit')
    fr = sorted(effect_blocks(prog, hs, Effect('fill_ids', callees={INTARRAY + 'from_range', INTARRAY + 'from_id'})))
    sj = hs.call_blocks(SUB + 'submit_job_desc')
    ctx.require(fr and sj, 'R02.2: anchors in handle_submit')
    ctx.ob('R02.2', 'handle_submit|ids filled before submit_job_desc', not (set(fr) & hs.reach_from(sj)), 'auto ids are filled before both sides are built', hs.loc(sj[0]))

    # ---- R02.3
    rem_callers = set(o for o, b, bi in call_sites(prog, CORE + 'remove_task') if not is_test_util(o)) | \
        set(o for o, b, bi in call_sites(prog, CORE + 'remove_tasks_batched') if not is_test_util(o))
    exp = {REACTOR + 'task_finished', REACTOR + 'task_failed', REACTOR + 'on_cancel_tasks', CORE + 'remove_tasks_batched'}
    ctx.ob('R02.3', 'core removal|callers', rem_callers == exp, f'tasks leave the core only through task_finished / task_failed / on_cancel_tasks (observed {sorted(x.split("::")[-1] for x in rem_callers)})', None)
    cjs = [prog.bodies[p] for p in prog.with_closures(HQ + 'client::cancel_job') if prog.bodies[p].kind == 'coroutine']
    ctx.require(cjs, 'R02.3: cancel_job missing')
    cj = cjs[0]
    m_ = cj.call_blocks('tako::control::ServerRef::cancel_tasks')
    z = cj.call_blocks(JOB + 'set_cancel_state')
    a = cj.call_blocks(JOB + 'non_finished_task_ids')
    ctx.require(m_ and z and a, 'R02.3: anchors in cancel_job')
    idl = cj.term[a[0]]['d'][0]
    ok1 = idl in cj.derived_from(op_local(cj.term[m_[0]]['args'][1]))
    ok2 = idl in cj.derived_from(op_local(cj.term[z[0]]['args'][2]))
    ctx.ob('R02.3', 'cancel_job|same ids to core and job', ok1 and ok2, 'the ids cancelled in the core are the ids marked canceled in the job', cj.loc(z[0]))
    callers = set(o for o, b, bi in call_sites(prog, 'tako::control::ServerRef::cancel_tasks') if not is_test_util(o))
    ctx.ob('R02.3', 'ServerRef::cancel_tasks|callers', callers == {HQ + 'client::cancel_job'}, f'only cancel_job cancels tasks in the core on behalf of clients (observed {sorted(callers)})', None)
    ok, wit = must_pass(cj, m_, z)
    ctx.ob('R02.3', 'cancel_job|job marks after core cancel', ok or _only_missing_job(cj, m_, z), 'after the core forgot the tasks the job marks them canceled (else orphan non-terminal tasks)', cj.loc(m_[0]))

    # ---- R02.4
    n = 0
    otu = prog.body(REACTOR + 'on_task_update')
    ask_otu = effect_blocks(prog, otu, E_ASK)
    for o, b, bi in call_sites(prog, TQS + 'add_ready_task'):
        if is_test_util(o) or not o.startswith(REACTOR):
            continue
        n += 1
        ask = effect_blocks(prog, b, E_ASK)
        ok, wit = must_pass(b, [bi], ask)
        how = 'asks for scheduling'
        if not ok and b.locals[0][0] == 'bool':
            # returns true on every path after the site
            rets_true = set(x for x in b.reachable() for st in b.stmts(x) if st['k'] == 'a' and st['p'] == [0, []] and st['rv'][0] == 'use' and op_const(st['rv'][1]) in ('true', 'const true'))
            ok2, _ = must_pass(b, [bi], rets_true)
            callers = set(oo for oo, bb, bj in call_sites(prog, b.path) if not is_test_util(oo))
            ok = ok2 and callers == {otu.path} and bool(ask_otu)
            how = 'returns need_scheduling=true to on_task_update'
        ctx.ob('R02.4', f'{o.split("::")[-1]}|ready -> wake-up', ok, f'{o.split("::")[-1]} makes a task ready and {how}', b.loc(bi))
    ctx.floor('R02.4', n, 1, 'add_ready_task sites in the reactor')
    for fn in ('on_new_tasks', 'on_new_worker', 'on_remove_worker'):
        b = prog.body(REACTOR + fn)
        ask = effect_blocks(prog, b, E_ASK)
        ok, wit = must_pass(b, [0], ask)
        ctx.ob('R02.4', f'{fn}|always wakes scheduler', ok, f'{fn} asks for scheduling on every path', b.loc())
    # on_task_update: Finished / Failed / Reject / Enable arms set need_scheduling and the tail asks
    WTU = T + 'messages::worker::WorkerTaskUpdate'
    ctx.ob('R02.4', 'on_task_update|asks when needed', bool(ask_otu), 'on_task_update asks for scheduling when a handler reported need_scheduling', otu.loc())
    # worker side: a finished task re-enables blocked requests (EnableRequest) so the server un-blocks the worker
    htf = [prog.bodies[p] for p in prog.with_closures(T + 'worker::reactor::handle_task_future') if prog.bodies[p].kind == 'coroutine']
    ctx.require(htf, 'R02.4: handle_task_future missing')
    hb = htf[0]
    en = [1 for o, b, bi, s in construct_sites(prog, WTU, 'EnableRequest') if b.path == hb.path]
    ctx.ob('R02.4', 'handle_task_future|EnableRequest', bool(en), 'when a task ends the worker re-checks blocked requests and reports EnableRequest (otherwise a rejected request class is never scheduled there again)', hb.loc())
    re = prog.body(REACTOR + 'request_enabled')
    ctx.ob('R02.4', 'request_enabled|unblocks', bool(re.call_blocks(WORKER + 'unblock_request')), 'EnableRequest unblocks the request on the server side', re.loc())

    # ---- R02.8 the scheduler sees every priority level of a ready queue
    ctx.rule('R02.8', 'TaskQueue::iter_priority_sizes: an element taken from the queue iterator with next() (to compare it with the prefill priority) is re-emitted in the result on every path where it was Some (a swallowed level hides its ready tasks from create_task_batches and the solver)')
    OPT_ = 'core::option::Option'
    ips = prog.body(T + 'scheduler::taskqueue::TaskQueue::iter_priority_sizes')
    nx_ = [bi for bi, t, c in ips.calls() if bi in ips.reachable() and (callee_decl(t) or c or '').endswith('Iterator::next')]
    for nb_ in nx_:
        dl = ips.term[nb_]['d'][0]
        keys_ = sorted([k for k, d in scrutinees(ips, OPT_).items() if d['root'] == dl], key=len)
        ctx.require(keys_, 'R02.8: result of next() is not matched in iter_priority_sizes')
        rets_ = [(bi, st) for bi in ips.reachable() for st in ips.stmts(bi) if st['k'] == 'a' and st['p'] == [0, []] and bi in ips.reach_after(nb_)]
        ctx.require(rets_, 'R02.8: no result built after next()')
        for bi, st in rets_:
            vs = variants_at(ips, OPT_, bi, keys_[0])
            if vs is not None and 'Some' not in vs:
                continue
            srcs = set()
            for pl in __import__('hqrules.core', fromlist=['rv_places']).rv_places(st['rv']):
                srcs |= ips.derived_from(pl[0], through_mutation=False)
            ctx.ob('R02.8', f'iter_priority_sizes|consumed element re-emitted|arm={"+".join(sorted(vs)) if vs else "any"}', dl in srcs,
                   'the result built where next() may have returned Some derives from the consumed element', ips.loc(bi, st))
    ctx.floor('R02.8', len(nx_), 1, 'next() on the queue iterator in iter_priority_sizes')

    # ---- R02.9
    ctx.rule('R02.9', 'a task whose retraction was confirmed is dispatched again: on_retract_response moves it out of Retracting on every path (Assigned on the redirect target, Waiting otherwise)')
    shared_rules.retract_response_leaves_retracting(ctx, 'R02.9')


def _only_missing_job(cj, m_, z):
    """paths from cancel_tasks to return that avoid set_cancel_state exist only via the `job not found` None arm."""
    r = cj.reach_after(m_[0], avoid=z)
    rets = [x for x in cj.returns() if x in r]
    if not rets:
        return True
    OPTION = 'core::option::Option'
    for k, st in cj.variant_flow(OPTION).items():
        if all(any(st.get(b) == frozenset({'None'}) for b in cj.coreach([x]) & r) for x in rets):
            return True
    return False
