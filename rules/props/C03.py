"""C03 — dependencies: never start early; failure/cancel propagates to all dependents."""
from hqrules.core import FailClosed, callee_of, callee_decl, op_local, op_place, place_fields, norm
from hqrules.templates import (effect_blocks, must_pass, state_writes, variants_at, call_sites, construct_sites, Effect,
                               loop_headers_containing, owner_fn, scrutinees, guard_edges, dominated_by_edges,
                               local_field_sources, binops, operand_fields, bool_uses, check_arm_effect)
from .common import *
from . import reactor_table

EXPLANATION = ('Structural necessary conditions of C03: unfinished-dependency counting at submit, the classification of every site that makes '
               'a task ready, who may build ComputeTasks, the flow of the recursive-consumer set into removal and announcement, the order '
               'abort-dependents-then-fail in the journal, the restore-side tables (is_completed, missing-entry replay of aborted/canceled '
               'dependents), the incremental (topological) dependency validation, and the information-flow condition that the submit path '
               'can see whether an existing dependency failed.')
NOT_DECIDED = ['that collect_recursive_consumers computes the full transitive closure (value-level worklist; unit-tested only)',
               'behaviour over all DAG shapes and restart points']
RELATED = {'C12': ['R12.2', 'R12.1~^TasksAborted'], 'C10': ['R10.9~^TasksAborted', 'R10.7']}
ASSUMPTIONS = []
OPTION = 'core::option::Option'
RESTORE = HQ + 'restore::'
EP = HQ + 'event::payload::EventPayload'


def run(ctx):
    prog = ctx.prog
    ctx.rule('R03.1', 'on_new_tasks: every existing dependency registers the consumer and is counted iff it is not finished; the stored Waiting{unfinished_deps} derives from that count')
    ctx.rule('R03.2', 'every add_ready_task site is guarded by decrease_unfinished_deps()==true / is_ready()==true, or re-queues a task that was already placed')
    ctx.rule('R03.3', 'ComputeTasks messages are built only from the placement / redirect functions')
    ctx.rule('R03.4', 'the recursive-consumer set flows unfiltered into the removal loop and into on_task_error')
    ctx.rule('R03.5', 'restore: is_completed == {Finished,Failed,Canceled,Aborted}; dependencies on completed tasks are stripped and completed tasks are not resubmitted; aborted/canceled dependents without a prior record are recorded terminal')
    ctx.rule('R03.6', 'information flow: the submit path must read the JobTaskState of an existing dependency (the core forgets terminal tasks, so only the job knows that a dependency failed)')
    ctx.rule('R03.7', 'journal order: dependents are recorded aborted before the failure of their dependency is recorded')
    ctx.rule('R03.8', 'validate_submit checks dependencies incrementally (against ids seen so far), which enforces topological order and rejects cycles')

    # ---- R03.1
    cl = [prog.bodies[p] for p in prog.children(REACTOR + 'on_new_tasks')]
    ctx.require(len(cl) >= 1, 'R03.1: retain closure of on_new_tasks missing')
    cb = [b for b in cl if b.call_blocks(TASK + '::add_consumer')]
    ctx.require(len(cb) == 1, 'R03.1: closure calling add_consumer not found')
    cb = cb[0]
    optk = [k for k, d in scrutinees(cb, OPTION).items() if d['root_callee'] in reactor_table.FIND]
    ctx.require(optk, 'R03.1: find_task_mut Option not found')
    check_arm_effect(ctx, 'R03.1', cb, OPTION, {'Some'}, Effect('add_consumer', callees={TASK + '::add_consumer'}), 'must', optk[0], 'an existing dependency always records its consumer')
    adds = [(bi, s) for bi, s, op, a, c in binops(cb) if op.startswith('Add') and any(o[0] == 'k' and '1_' in o[1] for o in (a, c))]
    ctx.require(len(adds) == 1, 'R03.1: counter increment not found')
    edges, calls = guard_edges(cb, TASK + '::is_finished', False)
    ctx.ob('R03.1', 'on_new_tasks|count iff !is_finished', dominated_by_edges(cb, adds[0][0], edges, False), 'the unfinished-dependency counter is incremented only when the dependency is not finished', cb.loc(adds[0][0], adds[0][1]))
    # both edges of is_finished stay inside the Some region and return true (keep the dep)
    ont = prog.body(REACTOR + 'on_new_tasks')
    wr = [(bi, s) for bi, s, v, pl in state_writes(ont, TRS) if v == 'Waiting']
    ctx.require(wr, 'R03.1: Waiting write in on_new_tasks missing')
    # the counter: the u32 local captured by `&mut` into the retain closure
    cnt = []
    for bi_ in ont.reachable():
        for s_ in ont.stmts(bi_):
            if s_['k'] == 'a' and s_['rv'][0] == 'agg' and s_['rv'][1][0] == 'closure' and norm(s_['rv'][1][1]) == cb.path:
                for o_ in s_['rv'][2]:
                    tgt = ont._mutref_target(op_local(o_)) if op_local(o_) is not None else None
                    if tgt is not None and ont.locals[tgt][0] == 'u32':
                        cnt.append(tgt)
    ctx.require(cnt, 'R03.1: counter captured by the retain closure')
    okd = False
    for bi, s in wr:
        l = op_local(s['rv'][1])
        sd = ont.single_def(l) if l is not None else None
        if sd and sd[1] == 'a' and sd[2]['rv'][0] == 'agg':
            o = sd[2]['rv'][2][0]
            if op_local(o) is not None and set(cnt) & ont.derived_from(op_local(o)):
                okd = True
    ctx.ob('R03.1', 'on_new_tasks|Waiting{count}', okd, 'the stored unfinished_deps is the counted value', ont.loc(wr[0][0], wr[0][1]))
    add_t = ont.call_blocks(CORE + 'add_task')
    ctx.ob('R03.1', 'on_new_tasks|state before add_task', bool(add_t) and add_t[0] not in ont.reach_from([0], avoid=[w[0] for w in wr]), 'the dependency count is stored before the task is added (add_task queues ready tasks)', ont.loc(add_t[0]) if add_t else ont.loc())

    # ---- R03.2
    sites = [(o, b, bi) for o, b, bi in call_sites(prog, TQS + 'add_ready_task') if not is_test_util(o)]
    ctx.floor('R03.2', len(sites), 1, 'add_ready_task call sites')
    placed_owners = {REACTOR + 'on_remove_worker': 'tasks taken from the lost worker assignment were already placed',
                     REACTOR + 'task_reject': 'a rejected task was already placed'}
    for o, b, bi in sites:
        e1, _ = guard_edges(b, TASK + '::decrease_unfinished_deps', True)
        e2, _ = guard_edges(b, TASK + '::is_ready', True)
        g = (e1 and dominated_by_edges(b, bi, e1)) or (e2 and dominated_by_edges(b, bi, e2))
        why = 'guarded' if g else placed_owners.get(o)
        ctx.ob('R03.2', f'add_ready_task|{o.split("::")[-1]}', bool(g) or o in placed_owners,
               f'add_ready_task in {o.split("::")[-1]}: {why or "neither guarded by a zero-dependency test nor in a re-queue function"}', b.loc(bi))
    dud = prog.body(TASK + '::decrease_unfinished_deps')
    sub1 = [1 for bi, s, op, a, c in binops(dud) if op.startswith('Sub') and c[0] == 'k' and '1_' in c[1]]
    eq0 = [1 for bi, s, op, a, c in binops(dud) if op == 'Eq' and any(o[0] == 'k' and '0_' in o[1] for o in (a, c))]
    arms = variants_at(dud, TRS, [bi for bi, s, op, a, c in binops(dud) if op.startswith('Sub')][0]) if sub1 else None
    ctx.ob('R03.2', 'decrease_unfinished_deps|shape', bool(sub1) and bool(eq0) and arms is not None and set(arms) == {'Waiting'},
           'decrease_unfinished_deps subtracts 1 under Waiting and reports == 0', dud.loc())
    isr = prog.body(TASK + '::is_ready')
    eq0 = [1 for bi, s, op, a, c in binops(isr) if op == 'Eq' and any(o[0] == 'k' and '0_' in o[1] for o in (a, c))]
    sw0 = any(t and t['k'] == 'sw' and t['ty'] in ('u32',) and any(v == 0 for v, _ in t['ts']) for t in isr.term)
    ctx.ob('R03.2', 'is_ready|Waiting{0}', bool(eq0) or sw0, 'is_ready tests unfinished_deps against 0', isr.loc())

    # ---- R03.3
    CTB = T + 'server::task::ComputeTasksBuilder::'
    allowed = {MAPPING + 'WorkerTaskMapping::send_messages', REACTOR + 'on_retract_response', REACTOR + 'task_reject', REACTOR + 'on_remove_worker', CTB + 'single_task'}
    n = 0
    for fn in ('add_task', 'single_task'):
        for o, b, bi in call_sites(prog, CTB + fn):
            if is_test_util(o):
                continue
            n += 1
            ctx.ob('R03.3', f'{fn}|{o.split("::")[-1]}', o in allowed, f'ComputeTasksBuilder::{fn} called from {o.split("::")[-1]}', b.loc(bi))
    ctx.floor('R03.3', n, 1, 'ComputeTasksBuilder call sites')

    # ---- R03.4
    tf = prog.body(REACTOR + 'task_failed')
    crc = tf.call_blocks(TASK + '::collect_recursive_consumers')
    ctx.require(crc, 'R03.4: collect_recursive_consumers in task_failed')
    setl = tf._mutref_target(op_local(tf.term[crc[0]]['args'][2]))
    rm = tf.call_blocks(CORE + 'remove_task')
    oe = sorted(effect_blocks(prog, tf, E_EV_ERROR))
    ok_rm = any(setl in tf.derived_from(op_local(tf.term[x]['args'][1])) for x in rm if loop_headers_containing(tf, x))
    ctx.ob('R03.4', 'task_failed|consumers removed', ok_rm, 'the removal loop iterates the collected consumer set', tf.loc(rm[0]) if rm else tf.loc())
    oet = [x for x in oe if callee_decl(tf.term[x]) == EVP + 'on_task_error' or callee_of(tf.term[x]) == EVP + 'on_task_error']
    ok_ev = bool(oet) and setl in tf.derived_from(op_local(tf.term[oet[0]]['args'][2]))
    ctx.ob('R03.4', 'task_failed|consumers announced', ok_ev, 'on_task_error receives the collected consumer set', tf.loc(oet[0]) if oet else tf.loc())
    filt = [c for bi, t, c in tf.calls() if c and ('Iterator::filter' in c or c.endswith('::retain')) and bi in tf.reachable()]
    ctx.ob('R03.4', 'task_failed|unfiltered', not filt, 'the consumer set is not filtered on its way', tf.loc())
    ptf = prog.body(HQ + 'state::State::process_task_failed')
    ab = ptf.call_blocks(JOB + 'abort_tasks')
    params = set(l for l in range(1, ptf.argc + 1) if ptf.locals[l][0].startswith('alloc::vec::Vec<tako::internal::common::ids::TaskId'))
    ctx.ob('R03.4', 'process_task_failed|aborts consumers', any(params & ptf.derived_from(op_local(ptf.term[x]['args'][1])) for x in ab), 'the consumers reported by tako are aborted in the job', ptf.loc(ab[0]) if ab else ptf.loc())

    # ---- R03.5
    pt = prog.predicate_table(RESTORE + 'RestorerTaskInfo::is_completed')
    ctx.ob('R03.5', 'is_completed table', pt is not None and set(pt['true']) == {'Finished', 'Failed', 'Canceled', 'Aborted'}, f'is_completed is true exactly on the four terminal states (observed {sorted(pt["true"]) if pt else None})', prog.body(RESTORE + 'RestorerTaskInfo::is_completed').loc())
    rj = prog.body(RESTORE + 'RestorerJob::restore_job')
    ncl = 0
    for p in prog.with_closures(rj.path):
        b = prog.bodies[p]
        if p == rj.path:
            continue
        cs = b.call_blocks(RESTORE + 'is_task_completed')
        for c in cs:
            # closure result is the negation of is_task_completed
            dl = b.term[c]['d'][0]
            neg = any(st['k'] == 'a' and st['rv'][0] == 'un' and st['rv'][1] == 'Not' and op_local(st['rv'][2]) == dl and st['p'] == [0, []]
                      for x in b.reachable() for st in b.stmts(x))
            if b.locals[0][0] == 'bool':
                ncl += 1
                ctx.ob('R03.5', f'restore_job|retain closure {ncl}', neg, 'retain keeps exactly the entries that are NOT completed', b.loc(c))
    # the dependency filter itself: task_deps.retain(|d| !is_task_completed(d)) -- nothing else may decide which dependencies survive
    dep_ret = []
    for p_ in prog.with_closures(rj.path):
        b_ = prog.bodies[p_]
        for bi_ in b_.call_blocks(lambda c: c.endswith('::retain') or c.endswith('::retain_mut')):
            t_ = b_.term[bi_]
            if 'task_deps' in local_field_sources(b_, op_local(t_['args'][0]), through_mutation=False):
                cls_ = [norm(d[2]['rv'][1][1]) for a_ in t_['args'][1:] if op_local(a_) is not None for x in b_.derived_from(op_local(a_)) for d in b_.defs().get(x, ())
                        if d[1] == 'a' and d[2]['rv'][0] == 'agg' and d[2]['rv'][1][0] == 'closure']
                dep_ret.append((b_, bi_, cls_))
    ctx.ob('R03.5', 'restore_job|dependency filter exists', len(dep_ret) == 1, f'restore_job filters task_deps at one place (observed {len(dep_ret)})', rj.loc())
    for b_, bi_, cls_ in dep_ret:
        okc = any(c_ in prog.bodies and prog.bodies[c_].call_blocks(RESTORE + 'is_task_completed') for c_ in cls_)
        ctx.ob('R03.5', 'restore_job|dependencies dropped only if completed', okc,
               'a dependency is removed on restore only when the task it points to is completed (is_task_completed); any other filter (e.g. "re-submitted in the same submit") drops dependencies on unfinished tasks of earlier submits', b_.loc(bi_))
    ctx.ob('R03.5', 'restore_job|both filters present', ncl >= 2, f'task filter and dependency filter both use !is_task_completed (observed {ncl})', rj.loc())
    lef = prog.body(RESTORE + 'StateRestorer::load_event_file')
    RTI = RESTORE + 'RestorerTaskInfo'
    for ev, term in (('TasksAborted', 'Aborted'), ('TasksCanceled', 'Canceled')):
        sites_ = []
        for o, b, bi, s in construct_sites(prog, JTS, term):
            if b.path == lef.path:
                vs = variants_at(lef, EP, bi)
                if vs and set(vs) == {ev}:
                    sites_.append(bi)
        ins = [bi for o, b, bi, s in construct_sites(prog, RTI) if b.path == lef.path and (variants_at(lef, EP, bi) or set()) == {ev}]
        ctx.ob('R03.5', f'load_event_file|{ev}|missing entry recorded', bool(ins),
               f'the {ev} replay arm inserts a RestorerTaskInfo for a task without a prior record (dependents of a failed task are aborted without ever starting)', lef.loc(ins[0]) if ins else lef.loc())
        if ins:
            # the inserted info carries the terminal state
            okstate = False
            for o, b, bi, s in construct_sites(prog, RTI):
                if b.path == lef.path and bi in ins:
                    names = s['rv'][1][3]
                    l = op_local(s['rv'][2][names.index('state')])
                    sd = lef.single_def(l)
                    if sd and sd[1] == 'a' and sd[2]['rv'][0] == 'agg' and sd[2]['rv'][1][2] == term:
                        okstate = True
            ctx.ob('R03.5', f'load_event_file|{ev}|state {term}', okstate, f'the inserted record is {term}', lef.loc(ins[0]))

    # ---- R03.6
    SUB = HQ + 'client::submit::'
    roots = [SUB + 'validate_submit', SUB + 'submit_job_desc', SUB + 'prepare_job', SUB + 'build_tasks_graph', SUB + 'create_task_submit']
    bodies = set()
    for r in roots:
        prog.body(r)
        bodies |= set(prog.with_closures(r))
        for c in prog.may_call(r):
            if c in prog.bodies and c.startswith('hyperqueue::'):
                bodies |= set(prog.with_closures(c))
    reads = []
    for p in bodies:
        b = prog.bodies[p]
        if b.discr_reads(JTS):
            reads.append(p)
        for bi, t, c in b.calls():
            pt_ = prog.predicate_table(c) if c else None
            if pt_ and pt_['enum'] == JTS:
                reads.append(p)
    hs = prog.body(SUB + 'handle_submit')
    pre = hs.reach_from([0], avoid=hs.call_blocks('tako::control::ServerRef::add_new_tasks'))
    direct = [bi for bi, s, pl, e in hs.discr_reads(JTS) if bi in pre]
    ctx.ob('R03.6', 'submit path reads dependency state', bool(reads) or bool(direct),
           'between handle_submit and add_new_tasks some code must read the JobTaskState of an existing task (a dependency on an already failed/canceled task '
           'cannot otherwise be told from one on a finished task; tako drops dependencies it does not know)', hs.loc(),
           dict(bodies_examined=len(bodies), readers=sorted(reads)[:5]))

    # ---- R03.7
    ab0 = [x for x in ab if params & ptf.derived_from(op_local(ptf.term[x]['args'][1]))]
    sfs = ptf.call_blocks(JOB + 'set_failed_state')
    ctx.require(ab0 and sfs, 'R03.7: anchors in process_task_failed')
    ctx.ob('R03.7', 'process_task_failed|abort dependents before failure', sfs[0] not in ptf.reach_from([0], avoid=ab0),
           'abort_tasks(consumers) dominates set_failed_state: restore strips dependencies on completed tasks, so dependents must be terminal in the journal no later than the failure', ptf.loc(sfs[0]))

    # ---- R03.8
    vs_ = prog.body(SUB + 'validate_submit')
    SETI = {'hashbrown::set::HashSet::insert', 'std::collections::hash::set::HashSet::insert'}
    SETC = {'hashbrown::set::HashSet::contains', 'std::collections::hash::set::HashSet::contains'}
    ins = vs_.call_blocks(SETI)
    con = vs_.call_blocks(SETC)
    ctx.require(ins and con, f'R03.8: set insert/contains not found in validate_submit ({len(ins)}, {len(con)})')
    hi = loop_headers_containing(vs_, ins[0])
    hc = loop_headers_containing(vs_, con[0])
    ctx.ob('R03.8', 'validate_submit|incremental dependency check', bool(hi) and hi[0] in hc,
           'the dependency membership test runs inside the loop that inserts task ids (ids seen so far), so a task listed before its dependency, or a cycle, is refused', vs_.loc(con[0]))
    # same receiver set
    same = vs_._mutref_target(op_local(vs_.term[ins[0]]['args'][0])) in vs_.derived_from(op_local(vs_.term[con[0]]['args'][0]))
    ctx.ob('R03.8', 'validate_submit|same set', same, 'contains() is evaluated on the set being filled', vs_.loc(con[0]))

    # ---- R03.9 every dependency named by the client reaches tako
    ctx.rule('R03.9', 'build_tasks_graph passes every dependency id of a task on to tako: the chain from JobTaskDescription task_deps to TaskConfiguration.task_deps contains only total adapters (iter / copied / collect into a set / into_iter / map), no filter / filter_map / take / skip (a dependency on a task of an EARLIER submit of an open job is legal and must not be dropped)')
    btg9 = [prog.bodies[p_] for p_ in prog.with_closures(HQ + 'client::submit::build_tasks_graph')]
    TC9 = 'tako::gateway::TaskConfiguration'
    n9 = 0
    for o_, b_, bi_, s_ in construct_sites(prog, TC9):
        if b_.path not in {x.path for x in btg9}:
            continue
        names = s_['rv'][1][3]
        if 'task_deps' not in names:
            continue
        l_ = op_local(s_['rv'][2][names.index('task_deps')])
        if l_ is None:
            continue
        feeders = {(callee_decl(d_[2]) or callee_of(d_[2]) or '') for x_ in b_.derived_from(l_, through_mutation=False) for d_ in b_.defs().get(x_, ()) if d_[1] == 'call'}
        partial = sorted(c_.split('::')[-1] for c_ in feeders if c_.endswith(('Iterator::filter', 'Iterator::filter_map', 'Iterator::take', 'Iterator::skip', 'Iterator::take_while', 'Iterator::skip_while', 'Iterator::flat_map', 'Iterator::flatten', 'Iterator::step_by', 'Iterator::map_while')))
        n9 += 1
        ctx.ob('R03.9', 'build_tasks_graph|all dependencies passed on', not partial and any(c_.endswith(('Iterator::map', 'Iterator::collect')) for c_ in feeders),
               f'task_deps of the tako task is the image of the whole dependency list (partial adapters in the chain: {partial})', b_.loc(bi_, s_))
    ctx.floor('R03.9', n9, 1, 'TaskConfiguration with task_deps built in build_tasks_graph')
