"""C18 — allocation lifecycle is monotone and its worker accounting is exact."""
from hqrules.core import FailClosed, callee_of, callee_decl, op_local, op_place, place_fields, norm, op_const
from hqrules.templates import (effect_blocks, must_pass, state_writes, variants_at, call_sites, construct_sites, Effect,
                               loop_headers_containing, owner_fn, scrutinees, guard_edges, dominated_by_edges,
                               local_field_sources, binops, operand_fields, field_write_sites, field_read_sites, bool_uses)
from .common import *

EXPLANATION = ('Structural conditions of C18: the transition table of AllocationState extracted from every write of Allocation.status is '
               'monotone (Queued->Running|FinishedUnexpectedly, Running->Finished|FinishedUnexpectedly, nothing leaves a finished state); '
               'the start is announced only on Queued->Running by a worker connect; every arm that writes a finished state reports it, and the '
               'final dispatch announces the end with exactly the matching limiter call; the normal-finish test compares the number of lost '
               'workers with the submitted size; unknown allocations change nothing; queue removal cancels active allocations before forgetting them.')
NOT_DECIDED = ['temporal exactly-once over all event orders beyond what the monotone typestate implies', 'exactness of the connected-worker set (set arithmetic)']
ASSUMPTIONS = []
AA = HQ + 'autoalloc::'
AS = AA + 'state::AllocationState'
PROC = AA + 'process::'
SYNC = PROC + 'sync_allocation_status'
ISEC = PROC + 'increase_status_error_counter'
ASR = PROC + 'AllocationSyncReason'
AF = SYNC + '::AllocationFinished'
ALLOC = AA + 'state::Allocation'
FIN = {'Finished', 'FinishedUnexpectedly'}
OPTION = 'core::option::Option'
E_STARTED = Effect('alloc.started', callees={STREAMER + 'on_allocation_started'})
E_FINISHED = Effect('alloc.finished', callees={STREAMER + 'on_allocation_finished'})
LIM = AA + 'state::RateLimiter::'
E_LSUCC = Effect('limiter.success', callees={LIM + 'on_allocation_success'})
E_LFAIL = Effect('limiter.fail', callees={LIM + 'on_allocation_fail'})


def run(ctx):
    prog = ctx.prog
    ctx.rule('R18.1', 'AllocationState transition table is monotone; Allocation.status is written only by sync_allocation_status / increase_status_error_counter (and constructed Queued)')
    ctx.rule('R18.2', 'announcements: started only on Queued->Running by worker connect; every finishing write is reported (Some(_)) and the dispatch announces the end with exactly one matching limiter call')
    ctx.rule('R18.3', 'normal finish: the Finished write is guarded by disconnected_workers.count() == target_worker_count')
    ctx.rule('R18.4', 'messages naming an unknown allocation change nothing (no call besides logging on the None path)')
    ctx.rule('R18.7', 'the finish condition counts DISTINCT lost workers: DisconnectedWorkers keeps them in a container keyed by WorkerId and add_lost_worker inserts by key')
    ctx.rule('R18.5', 'remove_queue: active allocations are cancelled (prepare_queue_cleanup) before the queue and its allocation index are forgotten')

    allowed = {('Queued', 'Running'), ('Queued', 'FinishedUnexpectedly'), ('Running', 'Finished'), ('Running', 'FinishedUnexpectedly')}
    n = 0
    writers = set()
    for p, b in prog.bodies.items():
        if not p.startswith(AA) or is_test_util(p) or '::_::' in p:
            continue
        for bi, s, v, pl in state_writes(b, AS):
            fs = place_fields(pl)
            if not fs or fs[-1][0] != 'status':
                continue
            n += 1
            writers.add(owner_fn(prog, p))
            old = variants_at(b, AS, bi)
            ok = old is not None and all((o, v) in allowed for o in old)
            ctx.ob('R18.1', f'{owner_fn(prog, p).split("::")[-1]}|{"+".join(sorted(old)) if old else "?"}->{v}', ok,
                   f'Allocation.status := {v} under old state {sorted(old) if old else old}; allowed transitions {sorted(allowed)}', b.loc(bi, s))
    ctx.floor('R18.1', n, 4, 'writes of Allocation.status')
    ctx.ob('R18.1', 'writers', writers == {SYNC, ISEC}, f'Allocation.status is written only by sync_allocation_status and increase_status_error_counter (observed {sorted(x.split("::")[-1] for x in writers)})', None)
    for o, b, bi, s in construct_sites(prog, ALLOC):
        if is_test_util(o) or ' as core::clone::Clone>' in o or '::_::' in o:
            continue
        names = s['rv'][1][3]
        l = op_local(s['rv'][2][names.index('status')])
        sd = b.single_def(l) if l is not None else None
        v = sd[2]['rv'][1][2] if sd and sd[1] == 'a' and sd[2]['rv'][0] == 'agg' else None
        ctx.ob('R18.1', f'Allocation constructed|{o.split("::")[-1]}', v == 'Queued', f'a new Allocation starts Queued (observed {v})', b.loc(bi))

    # ---- R18.2
    sy = prog.body(SYNC)
    st = effect_blocks(prog, sy, E_STARTED)
    ctx.floor('R18.2', len(st), 1, 'on_allocation_started in sync_allocation_status')
    for x in st:
        old = variants_at(sy, AS, x)
        why = variants_at(sy, ASR, x)
        ctx.ob('R18.2', 'started|Queued + worker connect', old is not None and set(old) == {'Queued'} and why is not None and set(why) == {'WorkedConnected'},
               f'the start is announced only on Queued->Running caused by a worker connect (observed state {sorted(old) if old else old}, reason {sorted(why) if why else why})', sy.loc(x))
    owners = set(o for o, b, bi in call_sites(prog, STREAMER + 'on_allocation_started') if not is_test_util(o))
    ctx.ob('R18.2', 'started|emitter', owners == {SYNC}, f'on_allocation_started is emitted only by sync_allocation_status (observed {sorted(owners)})', None)
    fin_writes = [(bi, s, v) for bi, s, v, pl in state_writes(sy, AS) if v in FIN]
    ctx.floor('R18.2', len(fin_writes), 1, 'finishing writes in sync_allocation_status')
    somes = [bi for o, b, bi, s in construct_sites(prog, OPTION, 'Some') if b.path == sy.path and _is_af(sy, s)]
    ctx.floor('R18.2', len(somes), 1, 'Some(AllocationFinished) constructions')
    fwb = [x[0] for x in fin_writes]
    for bi, s, v in fin_writes:
        ok, wit = must_pass(sy, [bi], somes)
        old = variants_at(sy, AS, bi)
        ctx.ob('R18.2', f'sync|{"+".join(sorted(old)) if old else "?"}->{v}|reported', ok, f'the arm that writes {v} yields Some(AllocationFinished::_)', sy.loc(bi, s))
    for x in somes:
        ok = x not in sy.reach_from([0], avoid=fwb)
        ctx.ob('R18.2', f'sync|Some only after a finishing write|{_af_variant(sy, x)}', ok, 'an end is reported only by an arm that wrote a finished state', sy.loc(x))
    fe = effect_blocks(prog, sy, E_FINISHED)
    ls, lf = effect_blocks(prog, sy, E_LSUCC), effect_blocks(prog, sy, E_LFAIL)
    good = {'AllWorkersFinished', 'FromQueuedToExternalFinish', 'FromRunningToExternalFinish'}
    bad = {'AllWorkersFailed', 'FromQueuedToExternalFailure', 'FromRunningToExternalFailure'}
    ctx.require(set(prog.variants(AF)) == good | bad, f'R18.2: AllocationFinished variants changed: {prog.variants(AF)}')
    # final dispatch: arms over the AllocationFinished value
    fl = sy.variant_flow(AF)
    ctx.require(fl, 'R18.2: dispatch over AllocationFinished not found')
    for grp, name, must_e, never_e in ((good, 'success', ls, lf), (bad, 'failure', lf, ls)):
        entries, region = sy.arm_entries(AF, grp)
        ctx.require(region, f'R18.2: no dispatch arm for {sorted(grp)}')
        ok1, _ = must_pass(sy, entries, fe)
        ok2, _ = must_pass(sy, entries, must_e)
        ok3 = not (region & never_e)
        ctx.ob('R18.2', f'dispatch|{name}|announce end', ok1, f'every {name} reason announces on_allocation_finished', sy.loc(entries[0]))
        ctx.ob('R18.2', f'dispatch|{name}|limiter', ok2 and ok3, f'every {name} reason calls exactly the {name} limiter hook', sy.loc(entries[0]))
    ctx.ob('R18.2', 'dispatch|one announce site per group', len(fe) == 2, f'on_allocation_finished has one call site per outcome group in the dispatch (observed {len(fe)})', sy.loc())
    isb = prog.body(ISEC)
    fe2 = effect_blocks(prog, isb, E_FINISHED)
    for bi, s, v, pl in state_writes(isb, AS):
        if v in FIN:
            ok, _ = must_pass(isb, [bi], fe2)
            ctx.ob('R18.2', f'increase_status_error_counter|->{v}|announced', ok, 'the arm that gives up on an allocation announces its end', isb.loc(bi, s))
    owners = set(o for o, b, bi in call_sites(prog, STREAMER + 'on_allocation_finished') if not is_test_util(o))
    ctx.ob('R18.2', 'finished|emitters', owners == {SYNC, ISEC}, f'on_allocation_finished emitted only by the two status writers (observed {sorted(x.split("::")[-1] for x in owners)})', None)

    # connected / lost worker sets
    ctx.rule('R18.6', 'worker accounting: a connect under Running inserts into connected_workers; a loss under Running removes from connected_workers and records the lost worker')
    SETI = {'hashbrown::set::HashSet::insert', 'std::collections::hash::set::HashSet::insert'}
    SETR = {'hashbrown::set::HashSet::remove', 'std::collections::hash::set::HashSet::remove'}
    def set_calls(cs, field):
        return [bi for bi in sy.call_blocks(cs) if field in local_field_sources(sy, op_local(sy.term[bi]['args'][0]), through_mutation=False)]
    ins = set_calls(SETI, 'connected_workers')
    rem = set_calls(SETR, 'connected_workers')
    dwb = prog.find_bodies(r'DisconnectedWorkers::add_lost_worker$')
    alw = sy.call_blocks(dwb[0].path) if dwb else []
    def cell(bi):
        return (tuple(sorted(variants_at(sy, ASR, bi) or [])), tuple(sorted(variants_at(sy, AS, bi) or [])))
    ctx.ob('R18.6', 'connect under Running -> connected_workers.insert', any(cell(x) == (('WorkedConnected',), ('Running',)) for x in ins), f'a further worker of a running allocation is added to connected_workers (cells {[cell(x) for x in ins]})', sy.loc(ins[0]) if ins else sy.loc())
    ctx.ob('R18.6', 'loss under Running -> connected_workers.remove', any(cell(x) == (('WorkerLost',), ('Running',)) for x in rem), f'a lost worker leaves connected_workers (cells {[cell(x) for x in rem]})', sy.loc(rem[0]) if rem else sy.loc())
    ctx.ob('R18.6', 'loss under Running -> add_lost_worker', any(cell(x) == (('WorkerLost',), ('Running',)) for x in alw), 'a lost worker is recorded in disconnected_workers', sy.loc(alw[0]) if alw else sy.loc())
    for x in ins + rem + alw:
        c_ = cell(x)
        ctx.ob('R18.6', f'worker sets touched only while Running|{c_[0]}', c_[1] == ('Running',), f'worker sets are modified only for a Running allocation (observed {c_})', sy.loc(x))
    # first worker: the Queued->Running write carries the connecting worker
    # ---- R18.3
    finish_test(ctx, 'R18.3')

    # ---- R18.4
    hm = [prog.bodies[p] for p in prog.with_closures(PROC + 'handle_message') if prog.bodies[p].kind == 'coroutine']
    ctx.require(hm, 'R18.4: handle_message coroutine')
    hb = hm[0]
    gd = hb.call_blocks(PROC + 'get_data_from_worker')
    ctx.floor('R18.4', len(gd), 1, 'get_data_from_worker calls')
    for g in gd:
        keys = sorted([k for k, d in scrutinees(hb, OPTION).items() if d['root'] == hb.term[g]['d'][0]], key=len)
        ctx.require(keys, 'R18.4: Option of get_data_from_worker not matched')
        entries, region = hb.arm_entries(OPTION, {'None'}, keys[0])
        badc = [x for x in region if hb.term[x] and hb.term[x]['k'] == 'call' and 'log::' not in hb.term[x].get('x', '') and 'fmt' not in (callee_of(hb.term[x]) or '')]
        ctx.ob('R18.4', f'handle_message|unknown allocation|{hb.loc(g).split(":")[-1] and len(region)}', not badc, 'the unknown-allocation branch only logs', hb.loc(badc[0]) if badc else hb.loc(g))

    # ---- R18.5
    rq = [prog.bodies[p] for p in prog.with_closures(PROC + 'remove_queue') if prog.bodies[p].kind == 'coroutine']
    ctx.require(rq, 'R18.5: remove_queue coroutine')
    rb = rq[0]
    pc = rb.call_blocks(PROC + 'prepare_queue_cleanup')
    rmq = rb.call_blocks(AA + 'state::AutoAllocState::remove_queue')
    ctx.require(pc and rmq, 'R18.5: anchors in remove_queue')
    ctx.ob('R18.5', 'remove_queue|cleanup before forget', rmq[0] not in rb.reach_from([0], avoid=pc), 'prepare_queue_cleanup (one remove_allocation per active allocation) precedes AutoAllocState::remove_queue', rb.loc(rmq[0]))
    ys_ = rb.yields()
    ctx.ob('R18.5', 'remove_queue|forgotten in the same step as the cancellations are issued', not any(rmq[0] in rb.reach_after(y) for y in ys_),
           'AutoAllocState::remove_queue runs before the first await: once the cancel futures exist the queue is gone, so a failing or slow cancellation cannot leave it registered (and a repeated removal cannot cancel the same allocations again)', rb.loc(rmq[0]))
    okf, _w = must_pass(rb, pc, rmq)
    ctx.ob('R18.5', 'remove_queue|forgotten on every path after the cleanup was prepared', okf, 'every path from prepare_queue_cleanup to a return forgets the queue (no early return on a failed cancellation)', rb.loc(rmq[0]))
    ja = rb.call_blocks(lambda c: c.endswith('join_all'))
    ctx.ob('R18.5', 'remove_queue|cancellations awaited', bool(ja) and bool(rb.yields()), 'the cancellation futures are awaited', rb.loc(ja[0]) if ja else rb.loc())
    pqc = [prog.bodies[p] for p in prog.with_closures(PROC + 'prepare_queue_cleanup')]
    act = any(b.call_blocks(AA + 'state::AllocationQueue::active_allocations') for b in pqc)
    rma = any(b.call_blocks(AA + 'queue::QueueHandler::remove_allocation') for b in pqc)
    ctx.ob('R18.5', 'prepare_queue_cleanup|active only, one each', act and rma, 'remove_allocation is issued once per ACTIVE allocation', pqc[0].loc())
    filt = [b.loc(bi) for b in pqc for bi in b.call_blocks(lambda c: c.endswith('Iterator::filter') or c.endswith('Iterator::filter_map') or c.endswith('Iterator::skip_while') or c.endswith('Iterator::take_while'))]
    uncond = True
    for b in pqc:
        for bi in b.call_blocks(AA + 'queue::QueueHandler::remove_allocation'):
            okm, _ = must_pass(b, [0], [bi])
            if not okm:
                uncond = False
    ctx.ob('R18.5', 'prepare_queue_cleanup|every active allocation, unconditionally', not filt and uncond,
           f'no further filter decides which active allocations are cancelled (extra filters at {filt}); an allocation that is Running without a connected worker is still active and must be cancelled', pqc[0].loc())
    arq = prog.body(AA + 'state::AutoAllocState::remove_queue')
    touch = any(b.path in prog.with_closures(arq.path) for o, b, bi, st in field_read_sites(prog, AA + 'state::AutoAllocState', 'allocation_to_queue'))
    ctx.ob('R18.5', 'AutoAllocState::remove_queue|forgets index', touch, 'removing a queue also removes its allocation_to_queue entries', arq.loc())
    ins = set(o for o, b, bi, st, k in field_write_sites(prog, AA + 'state::AutoAllocState', 'allocation_to_queue') if not is_test_util(o))
    ctx.ob('R18.5', 'allocation_to_queue|writers', ins <= {AA + 'state::AutoAllocState::add_allocation', arq.path, AA + 'state::AutoAllocState::new'}, f'allocation_to_queue is modified only by add_allocation / remove_queue (observed {sorted(x.split("::")[-1] for x in ins)})', None)

    # ---- R18.7
    DW = AA + 'state::DisconnectedWorkers'
    dw = prog.adt(DW)
    fields = dw.get('fields') or dw['variants'][0]['fields']
    wf = [f for f in fields if (f['name'] if isinstance(f, dict) else f[0]) == 'workers']
    ctx.require(wf, 'R18.7: DisconnectedWorkers.workers')
    ty = wf[0]['ty'] if isinstance(wf[0], dict) else wf[0][1]
    keyed = any(k in ty for k in ('HashMap<', 'BTreeMap<', 'IndexMap<', 'HashSet<', 'BTreeSet<', 'Map<', 'Set<')) and 'WorkerId' in ty.split(',')[0]
    ctx.ob('R18.7', 'DisconnectedWorkers.workers|keyed by WorkerId', keyed, f'lost workers are stored in a map/set keyed by WorkerId (observed {ty[:90]}): a duplicate loss notification for one worker must not count twice towards the finish condition', None)
    alw = prog.body(DW + '::add_lost_worker')
    ctx.ob('R18.7', 'add_lost_worker|inserts by key', bool(alw.call_blocks(lambda c: c.endswith(('Map::insert', 'HashMap::insert', 'Set::insert', 'HashSet::insert', 'BTreeMap::insert', 'Entry::or_insert', 'entry')))), 'add_lost_worker inserts under the worker id', alw.loc())
    cnt = prog.body(DW + '::count')
    ctx.ob('R18.7', 'count|size of the keyed container', bool(cnt.call_blocks(lambda c: c.endswith('::len'))), 'count() is the number of keys', cnt.loc())

    # ---- R18.8 the allocation lifecycle is announced durably
    ctx.rule('R18.8', 'AllocationQueued / AllocationStarted / AllocationFinished are sent with ForwardMode::StreamAndPersist (the announced lifecycle is also what the journal / a later history reader sees; a stream-only end leaves an allocation that never ends in the persisted history)')
    FM8 = HQ + 'event::streamer::ForwardMode'
    EP8 = HQ + 'event::payload::EventPayload'
    n8 = 0
    for p_, b_ in prog.bodies.items():
        if not p_.startswith(STREAMER + 'on_allocation_') or b_.kind != 'method':
            continue
        pv = set(s_['rv'][1][2] for o_, bb_, bi_, s_ in construct_sites(prog, EP8) if bb_.path == p_)
        fm = set(s_['rv'][1][2] for o_, bb_, bi_, s_ in construct_sites(prog, FM8) if bb_.path == p_)
        for v_ in sorted(pv & {'AllocationQueued', 'AllocationStarted', 'AllocationFinished'}):
            n8 += 1
            ctx.ob('R18.8', f'{v_}|persisted', fm == {'StreamAndPersist'}, f'{v_} is emitted with StreamAndPersist (observed {sorted(fm)})', b_.loc())
    ctx.floor('R18.8', n8, 3, 'allocation lifecycle emitters')


def _is_af(b, s):
    l = s['p'][0]
    return AF in b.locals[l][0]


def _af_variant(b, bi):
    vs = set()
    for s in b.stmts(bi):
        if s['k'] == 'a' and s['rv'][0] == 'agg' and s['rv'][1][0] == 'adt' and norm(s['rv'][1][1]) == AF:
            vs.add(s['rv'][1][2])
    if not vs:
        # Some(tmp) with tmp assigned in predecessor blocks (if failed {..} else {..})
        for p in b.pred[bi]:
            for s in b.stmts(p):
                if s['k'] == 'a' and s['rv'][0] == 'agg' and s['rv'][1][0] == 'adt' and norm(s['rv'][1][1]) == AF:
                    vs.add(s['rv'][1][2])
    return '+'.join(sorted(vs)) or f'bb'


def _reachable_under(b, okeq, addc):
    return True


def finish_test(ctx, rule):
    prog = ctx.prog
    sy = prog.body(SYNC)
    fin_writes = [(bi, s, v) for bi, s, v, pl in state_writes(sy, AS) if v in FIN]
    fw = [(bi, s) for bi, s, v in fin_writes if v == 'Finished']
    ctx.require(len(fw) == 1, 'R18.3: expected exactly one write of Finished')
    eqs = [(bi, s, a, c) for bi, s, op, a, c in binops(sy) if op == 'Eq']
    cnt_calls = [bi for bi, t, c in sy.calls() if c and c.endswith('DisconnectedWorkers::count') and bi in sy.reachable()]
    okeq = None
    for bi, s, a, c in eqs:
        la, lc = op_local(a), op_local(c)
        srcs_a = sy.derived_from(la) if la is not None else set()
        srcs_c = sy.derived_from(lc) if lc is not None else set()
        has_cnt = any(sy.term[x]['d'][0] in (srcs_a | srcs_c) for x in cnt_calls)
        has_tgt = 'target_worker_count' in (operand_fields(sy, a) | operand_fields(sy, c))
        if has_cnt and has_tgt:
            okeq = (bi, s)
    ctx.ob(rule, 'finish test shape', okeq is not None, 'a comparison disconnected_workers.count() == allocation.target_worker_count exists', sy.loc(okeq[0], okeq[1]) if okeq else sy.loc())
    if okeq:
        uses = bool_uses(sy, okeq[1]['p'][0])
        t_edges = set((sb, ts) for sb, ts, fs in uses)
        ctx.ob(rule, 'Finished guarded by the count test', dominated_by_edges(sy, fw[0][0], t_edges, False),
               'the allocation finishes normally exactly when the number of distinct lost workers equals the submitted size (not when the connected set happens to be empty)', sy.loc(fw[0][0], fw[0][1]))
    dw = prog.find_bodies(r'DisconnectedWorkers::add_lost_worker$')
    ctx.require(dw, 'R18.3: DisconnectedWorkers::add_lost_worker')
    addc = sy.call_blocks(dw[0].path)
    ctx.ob(rule, 'lost worker recorded before the test', bool(addc) and okeq is not None and okeq[0] not in sy.reach_from([0], avoid=addc) or not _reachable_under(sy, okeq, addc), 'the lost worker is recorded before the count is compared', sy.loc(addc[0]) if addc else sy.loc())
