"""C06 — one live execution per task; instance ids strictly increase."""
from hqrules.core import FailClosed, callee_of, op_local, op_place, place_fields, norm
from hqrules.templates import (check_arm_effect, pick_scrutinee, effect_blocks, must_pass, state_writes, variants_at,
                               call_sites, construct_sites, field_write_sites, same_iteration_has, binops, operand_fields,
                               owner_fn, loop_headers_containing)
from .common import *
from . import reactor_table

EXPLANATION = ('Structural necessary conditions of C06: redirect discipline of Retracting tasks (who may turn a Retracting task '
               'into Assigned, and under which old state a ComputeTasks is recorded), single writer / +1 form of Task.instance_id, '
               'instance-id bump on every re-dispatch after a worker loss, restore plumbing of the next instance id, and the '
               'worker-side give-back discipline (retract reports exactly what it removed; only two callers may start a task).')
NOT_DECIDED = ['the global "never on two connected workers" invariant over all interleavings']
ASSUMPTIONS = ['per-connection FIFO']

WSTATE = T + 'worker::state::WorkerState::'
WREACT = T + 'worker::reactor::'


def run(ctx):
    prog = ctx.prog
    ctx.rule('R06.1', 'Assigned is constructed only at placement (old Waiting) or when a Retracting task is handed to its redirect target')
    ctx.rule('R06.2', 'Retracting arms drop the redirect (table rows) and task_running drops it before re-inserting the reservation')
    ctx.rule('R06.3', 'Task.instance_id is written only by Task::new, increment_instance_id (+1) and the restore adjust')
    ctx.rule('R06.4', 'on_remove_worker: every re-dispatch site (state write, re-queue, ComputeTasks) has increment_instance_id in the same iteration')
    ctx.rule('R06.5', 'restore: next instance id = last seen + 1 and is copied into the task by handle_new_tasks')
    ctx.rule('R06.6', 'worker: retract reports exactly the ids it removed from the backlog; try_start_task has two callers')

    # ---- R06.1
    allowed = {
        MAPPING + 'create_task_mapping': {'Waiting'},
        REACTOR + 'on_retract_response': {'Retracting'},
        REACTOR + 'task_reject': {'Retracting'},
        REACTOR + 'on_remove_worker': {'Retracting'},
    }
    n = 0
    for owner, b, bi, s in construct_sites(prog, TRS, 'Assigned'):
        if is_test_util(owner):
            continue
        n += 1
        if owner not in allowed:
            ctx.ob('R06.1', f'construct Assigned|{owner.split("::")[-1]}', False, 'Assigned constructed outside the placement / redirect functions', b.loc(bi))
            continue
        vs = variants_at(b, TRS, bi)
        ok = vs is not None and set(vs) <= allowed[owner]
        ctx.ob('R06.1', f'construct Assigned|{owner.split("::")[-1]}', ok,
               f'Assigned constructed in {owner.split("::")[-1]} only under old state {sorted(allowed[owner])} (observed {sorted(vs) if vs else vs})', b.loc(bi))
    ctx.floor('R06.1', n, 1, 'construct sites of TaskRuntimeState::Assigned')
    # ComputeTasks recorded in create_task_mapping only under Waiting: the push into `.assigned`
    ctm = prog.body(MAPPING + 'create_task_mapping')
    pushes = []
    for bi, t, c in ctm.calls():
        if c == 'alloc::vec::Vec::push' and bi in ctm.reachable() and t['args']:
            from hqrules.templates import local_field_sources
            if 'assigned' in local_field_sources(ctm, op_local(t['args'][0])):
                pushes.append(bi)
    ctx.floor('R06.1', len(pushes), 1, 'push into WorkerTaskUpdate.assigned')
    for pb in pushes:
        vs = variants_at(ctm, TRS, pb)
        ctx.ob('R06.1', 'create_task_mapping|assigned.push', vs is not None and set(vs) <= {'Waiting'},
               f'a ComputeTasks entry is recorded only for a task taken in state Waiting (observed {sorted(vs) if vs else vs})', ctm.loc(pb))

    # ---- R06.2
    n = reactor_table.run_rows(ctx, 'R06.2', 'C06')
    ctx.floor('R06.2', n, 6, 'reactor rows for C06')
    tr = prog.body(REACTOR + 'task_running')
    scrut = pick_scrutinee(tr, TRS, root_callees=reactor_table.FIND, last_field='state')
    entries, region = tr.arm_entries(TRS, {'Retracting'}, scrut)
    rm = effect_blocks(prog, tr, E_TRY_RM_REDIR)
    ins = effect_blocks(prog, tr, E_W_INS) & region
    ctx.floor('R06.2', len(ins), 1, 'insert_sn_task in task_running x Retracting')
    for ib in ins:
        ok = ib not in tr.reach_from(entries, avoid=rm)
        ctx.ob('R06.2', 'task_running|Retracting|try_remove_redirection before insert_sn_task', ok,
               'the redirect (and its reservation) is dropped before the task is re-inserted on the reporting worker', tr.loc(ib))

    # ---- R06.3
    writers = set()
    for owner, b, bi, st, kind in field_write_sites(prog, TASK, 'instance_id'):
        if is_test_util(owner):
            continue
        writers.add(owner)
    okw = {TASK + '::increment_instance_id', CORE + 'handle_new_tasks', T + 'server::client::handle_new_tasks'}
    for w in sorted(writers):
        ctx.ob('R06.3', f'write instance_id|{w.split("::")[-1]}', w in okw or w.endswith('::handle_new_tasks'),
               f'Task.instance_id written in {w}', prog.bodies[w].loc() if w in prog.bodies else None)
    ctx.floor('R06.3', len(writers), 1, 'writers of Task.instance_id')
    inc = prog.body(TASK + '::increment_instance_id')
    plus1 = False
    for bi, s, op, a, b_ in binops(inc):
        if op.startswith('Add'):
            consts = [o[1] for o in (a, b_) if o[0] == 'k']
            if any(c.startswith('const 1_') or c.startswith('1_') for c in consts):
                plus1 = True
    ctx.ob('R06.3', 'increment_instance_id|+1', plus1, 'increment_instance_id adds the constant 1', inc.loc())
    # Task::new sets 0
    for owner, b, bi, s in construct_sites(prog, TASK):
        if is_test_util(owner):
            continue
        names = s['rv'][1][3]
        ops = s['rv'][2]
        if 'instance_id' in names:
            o = ops[names.index('instance_id')]
            l = op_local(o)
            from hqrules.templates import const_operands
            cs = const_operands(b, l) if l is not None else ({o[1]} if o[0] == 'k' else set())
            zero = any('0_' in c or c == 'const 0' for c in cs)
            # InstanceId::new(0): look for call with const 0 arg defining l
            if not zero and l is not None:
                sd = b.single_def(l)
                if sd and sd[1] == 'call':
                    zero = any(a[0] == 'k' and ('0_' in a[1]) for a in sd[2]['args'])
            ctx.ob('R06.3', f'Task constructed|{owner.split("::")[-1]}', zero, 'a fresh Task starts with instance id 0', b.loc(bi))

    # ---- R06.4
    orw = prog.body(REACTOR + 'on_remove_worker')
    ii = effect_blocks(prog, orw, E_II)
    ctx.floor('R06.4', len(ii), 1, 'increment_instance_id calls in on_remove_worker')
    sites = []
    for bi, s, v, pl in state_writes(orw, TRS):
        if v in ('Waiting', 'Assigned'):
            sites.append((bi, f'state={v}'))
    for eff in (E_Q_ADD, E_QPF2Q):
        for bi in effect_blocks(prog, orw, eff):
            # only direct calls (process_retracted etc. do not re-dispatch)
            t = orw.term[bi]
            if callee_of(t) in eff.callees:
                sites.append((bi, eff.name))
    for bi in orw.call_blocks(T + 'server::task::ComputeTasksBuilder::single_task'):
        sites.append((bi, 'ComputeTasks'))
    ctx.floor('R06.4', len(sites), 1, 're-dispatch sites in on_remove_worker')
    for bi, what in sites:
        vs = variants_at(orw, TRS, bi)
        vtxt = '+'.join(sorted(vs)) if vs and len(vs) < 7 else 'any'
        ok = same_iteration_has(orw, bi, ii)
        ctx.ob('R06.4', f'on_remove_worker|{what}|old={vtxt}', ok,
               f're-dispatch site ({what}, old state {vtxt}) bumps the instance id in the same iteration', orw.loc(bi))
        if what == 'ComputeTasks':
            # the message carries task.instance_id: it has to be built after the bump
            hs_ = loop_headers_containing(orw, bi)
            ctx.ob('R06.4', f'on_remove_worker|{what}|old={vtxt}|bump before the message is built', bi not in orw.reach_from(hs_[:1] or [0], avoid=ii),
                   'the ComputeTasks message for the new target is built after increment_instance_id (built before, it carries the id the lost worker may already have used)', orw.loc(bi))

    # ---- R06.5 restore plumbing
    rj = prog.body(HQ + 'restore::RestorerJob::restore_job')
    # (a) value inserted into adjust map derives from instance_id + 1
    plus1 = False
    for p in prog.with_closures(rj.path):
        b = prog.bodies[p]
        for bi, s, op, a, b_ in binops(b):
            if op.startswith('Add') and any(o[0] == 'k' and ('1_' in o[1]) for o in (a, b_)):
                plus1 = True
    ins = [bi for bi, t, c in rj.calls() if c in HASH_INSERT and bi in rj.reachable()
           and 'adjust_instance_id_and_crash_counters' in __import__('hqrules.templates', fromlist=['x']).local_field_sources(rj, op_local(t['args'][0]))]
    # ... and that sum is what is written into the adjust map (not merely some +1 elsewhere in the function)
    feeds = False
    LFS = __import__('hqrules.templates', fromlist=['x']).local_field_sources
    for bi in ins:
        vl = op_local(rj.term[bi]['args'][2]) if len(rj.term[bi]['args']) > 2 else None
        srcs = rj.derived_from(vl, through_mutation=False) if vl is not None else set()
        # (1) the sum is computed in restore_job itself from the recorded instance id
        for bj, s_, op, a, b_ in binops(rj):
            if op.startswith('Add') and any(o[0] == 'k' and ('1_' in o[1]) for o in (a, b_)) and s_['p'][0] in srcs:
                if any(op_local(o) is not None and 'instance_id' in LFS(rj, op_local(o), through_mutation=False) for o in (a, b_)):
                    feeds = True
        # (2) ... or in a closure mapped over the recorded instance id (`task.instance_id.map(|x| x.as_num() + 1)`)
        for bj, t_, c_ in rj.calls():
            if bj in rj.reachable() and (c_ or '').endswith(('Option::map', 'Option::map_or', 'Option::and_then')) and t_['d'][0] in srcs:
                recv = op_local(t_['args'][0])
                if recv is None or 'instance_id' not in LFS(rj, recv, through_mutation=False):
                    continue
                for a_ in t_['args'][1:]:
                    la = op_local(a_)
                    for x in (rj.derived_from(la, through_mutation=False) if la is not None else ()):
                        for d in rj.defs().get(x, ()):
                            if d[1] == 'a' and d[2]['rv'][0] == 'agg' and d[2]['rv'][1][0] == 'closure':
                                cb_ = prog.bodies.get(norm(d[2]['rv'][1][1]))
                                if cb_ is not None and any(op.startswith('Add') and any(o[0] == 'k' and ('1_' in o[1]) for o in (a2, b2)) for bk, s2, op, a2, b2 in binops(cb_)):
                                    feeds = True
    ctx.ob('R06.5', 'restore_job|instance+1', plus1 and feeds, 'the restored next instance id is computed as last seen + 1 and that value is what goes into the adjust map', rj.loc(ins[0]) if ins else rj.loc())
    ctx.ob('R06.5', 'restore_job|adjust insert', bool(ins), 'restore_job fills adjust_instance_id_and_crash_counters', rj.loc(ins[0]) if ins else rj.loc())
    if ins:
        gt = [(bi, s_) for bi, s_, op, a, c in binops(rj) if op in ('Gt', 'Ne') and 'crash_counter' in (operand_fields(rj, a) | operand_fields(rj, c))]
        from hqrules.templates import bool_uses, guard_edges, dominated_by_edges
        dom_cc = False
        for bi, s_ in gt:
            te = set((sb, ts) for sb, ts, fs in bool_uses(rj, s_['p'][0]))
            if te and dominated_by_edges(rj, ins[0], te):
                dom_cc = True
        # the insert is reachable on a path where every `crash_counter > 0` test is false (a task that was started but
        # never crashed) -- whatever form the instance-id test takes (is_some(), if-let, let-else, match)
        cc_true = set()
        for bi, s_ in gt:
            cc_true |= set((sb, ts) for sb, ts, fs in bool_uses(rj, s_['p'][0]))
        reach_nocc = ins[0] in rj.reach_from([0], avoid_edges=cc_true)
        # ... and on a path where the recorded instance id is Some
        e_none, _c = guard_edges(rj, 'core::option::Option::is_none', True)
        from hqrules.templates import scrutinees as _scr
        some_ok = not (e_none and dominated_by_edges(rj, ins[0], set(e_none)))
        for k_, d_ in _scr(rj, 'core::option::Option').items():
            if 'instance_id' in k_:
                vs_ = variants_at(rj, 'core::option::Option', ins[0], k_)
                if vs_ is not None and 'Some' not in vs_:
                    some_ok = False
        ctx.ob('R06.5', 'restore_job|adjust whenever an instance was seen', (not dom_cc) and reach_nocc and some_ok,
               'the adjust entry is written whenever the task has a recorded instance id (not only when it crashed): a started-but-not-crashed task must be re-run with last+1, not with instance 0', rj.loc(ins[0]))
    # (b) the adjust map is consumed by a function that writes Task.instance_id
    readers = set(o for o, b, bi, st in __import__('hqrules.templates', fromlist=['x']).field_read_sites(prog, 'tako::gateway::TaskSubmit', 'adjust_instance_id_and_crash_counters') if not is_test_util(o))
    wr = set(o for o, b, bi, st, k in field_write_sites(prog, TASK, 'instance_id') if not is_test_util(o))
    both = readers & wr
    ctx.ob('R06.5', 'adjust map -> Task.instance_id', bool(both),
           f'a function reads TaskSubmit.adjust_instance_id_and_crash_counters and writes Task.instance_id ({sorted(x.split("::")[-1] for x in both)})', None)
    # (c) TaskStarted replay stores the event instance id
    lef = prog.body(HQ + 'restore::StateRestorer::load_event_file')
    ok = False
    for owner, b, bi, s in construct_sites(prog, HQ + 'restore::RestorerTaskInfo'):
        names = s['rv'][1][3]
        if 'instance_id' in names and b.path == lef.path:
            o = s['rv'][2][names.index('instance_id')]
            l = op_local(o)
            if l is not None:
                # Some(instance_id) from the TaskStarted payload
                srcf = __import__('hqrules.templates', fromlist=['x']).local_field_sources(b, l)
                if 'instance_id' in srcf:
                    ok = True
    ctx.ob('R06.5', 'load_event_file|TaskStarted keeps instance id', ok, 'the TaskStarted replay arm records the instance id carried by the event', lef.loc())

    # ---- R06.7 worker message dispatch
    ctx.rule('R06.7', 'worker: RetractTasks is answered with exactly the ids retract_tasks removed from the backlog')
    pwm = prog.body(T + 'worker::rpc::process_worker_message')
    TWM = T + 'messages::worker::ToWorkerMessage'
    rc = pwm.call_blocks(WSTATE + 'retract_tasks')
    ctx.require(rc, 'R06.7: retract_tasks call in process_worker_message')
    vs = variants_at(pwm, TWM, rc[0])
    ctx.ob('R06.7', 'RetractTasks -> retract_tasks', vs is not None and set(vs) == {'RetractTasks'}, f'retract_tasks handles the RetractTasks message (observed {sorted(vs) if vs else vs})', pwm.loc(rc[0]))
    okr = False
    for o_, b_, bi_, s_ in construct_sites(prog, T + 'messages::worker::RetractResponseMsg'):
        if b_.path == pwm.path:
            l_ = op_local(s_['rv'][2][0])
            okr = l_ is not None and pwm.term[rc[0]]['d'][0] in pwm.derived_from(l_, through_mutation=False)
    ctx.ob('R06.7', 'RetractResponse carries the removed ids', okr, 'the response lists what retract_tasks returned (not the requested ids)', pwm.loc(rc[0]))
    # ---- R06.8 the adjustment reaches every task regardless of the order of the submit
    ctx.rule('R06.8', 'the restored instance id / crash counter is applied to every task of the submit: no order-dependent lookup (binary_search on a vector that was not sorted in the function); the TaskStarted replay refreshes the instance id on every path')
    hnt = [b_ for b_ in prog.find_bodies(r'^tako::internal::server::client::handle_new_tasks$')]
    ctx.require(hnt, 'R06.8: handle_new_tasks')
    hb_ = hnt[0]
    bs = [bi for p_ in prog.with_closures(hb_.path) for bi in prog.bodies[p_].call_blocks(lambda c: 'binary_search' in c)]
    srt = [bi for bi in hb_.call_blocks(lambda c: '::sort' in c)]
    ctx.ob('R06.8', 'handle_new_tasks|no binary search on the unsorted task vector', not bs or (srt and all(x not in hb_.reach_from([0], avoid=srt) for x in hb_.call_blocks(lambda c: 'binary_search' in c))),
           'tasks are in submit order (not sorted by id): a binary search silently misses tasks of an out-of-order graph submit, which then restart with instance id 0', hb_.loc(bs[0]) if bs else hb_.loc())
    wr_i = [bi for bi, st, pl, fs in hb_.field_writes() if fs and fs[-1][0] == 'instance_id' and fs[-1][1] == TASK]
    ctx.ob('R06.8', 'handle_new_tasks|writes instance_id from the adjust map', bool(wr_i), 'handle_new_tasks copies the adjusted instance id into the task', hb_.loc(wr_i[0]) if wr_i else hb_.loc())
    # TaskStarted replay: every path of the arm (job known) defines the instance id from the event
    EP_ = HQ + 'event::payload::EventPayload'
    RTI_ = HQ + 'restore::RestorerTaskInfo'
    lef_ = prog.body(HQ + 'restore::StateRestorer::load_event_file')
    defs_i = set(bi for o_, b_, bi, s_ in construct_sites(prog, RTI_) if b_.path == lef_.path and (variants_at(lef_, EP_, bi) or set()) == {'TaskStarted'})
    defs_i |= set(bi for bi, st, pl, fs in lef_.field_writes() if fs and fs[-1][0] == 'instance_id' and fs[-1][1] == RTI_ and (variants_at(lef_, EP_, bi) or set()) == {'TaskStarted'})
    writes_state = set(bi for bi, st, pl, fs in lef_.field_writes() if fs and fs[-1][0] == 'state' and fs[-1][1] == RTI_ and (variants_at(lef_, EP_, bi) or set()) == {'TaskStarted'})
    sites_ = sorted(defs_i | writes_state)
    ctx.require(sites_, 'R06.8: TaskStarted replay does not record the task')
    hs_ = loop_headers_containing(lef_, sites_[0])
    bad_ = [x for x in writes_state if x not in defs_i and not must_pass(lef_, [x], defs_i, exits=hs_[:1] + list(lef_.returns()))[0] and x in lef_.reach_from(hs_[:1] or [0], avoid=defs_i)]
    ctx.ob('R06.8', 'load_event_file|TaskStarted refreshes instance id on every path', not bad_,
           'a TaskStarted record always (re)defines the stored instance id (a branch that only updates the state keeps the id of the first start, so the next run reuses an id)', lef_.loc(bad_[0]) if bad_ else lef_.loc(sites_[0]))
    # ---- R06.9 a worker that lost its server starts nothing new
    ctx.rule('R06.9', 'worker end of life: finish_tasks_on_server_lost / cancel_running_tasks_on_worker_end drop the backlog of pre-sent tasks before their first await (a task started from the backlog after the server is gone is re-run by the restored server with the same instance id)')
    WRPC = T + 'worker::rpc::'
    for fn in ('finish_tasks_on_server_lost', 'cancel_running_tasks_on_worker_end'):
        cbs = [prog.bodies[p_] for p_ in prog.with_closures(WRPC + fn) if prog.bodies[p_].kind == 'coroutine']
        ctx.require(cbs, f'R06.9: coroutine of {fn}')
        cb_ = cbs[0]
        dr = cb_.call_blocks(WSTATE + 'drop_non_running_tasks')
        ys = cb_.yields()
        bad = [y for y in ys if y in cb_.reach_from([0], avoid=dr)]
        ctx.ob('R06.9', f'{fn}|backlog dropped before waiting', bool(dr) and bool(ys) and not bad,
               'drop_non_running_tasks() dominates every await of the function (while it waits, finishing tasks run prefill_loop, which starts backlog tasks)', cb_.loc(bad[0]) if bad else cb_.loc())
    dnr = prog.body(WSTATE + 'drop_non_running_tasks')
    ctx.ob('R06.9', 'drop_non_running_tasks|clears prefilled_tasks', any(fs and fs[-1][0] == 'prefilled_tasks' for bi, st, pl, fs in dnr.field_writes()), 'drop_non_running_tasks empties the backlog', dnr.loc())

    # ---- R06.6 worker side
    rt = prog.body(WSTATE + 'retract_tasks')
    # the pushed/collected ids are those for which remove from prefilled_tasks succeeded
    callers = set(o for o, b, bi in call_sites(prog, WREACT + 'try_start_task') if not is_test_util(o))
    ctx.ob('R06.6', 'try_start_task callers', callers <= {WREACT + 'try_alloc_and_start_task', WREACT + 'prefill_loop'} and len(callers) == 2,
           f'try_start_task is called only from try_alloc_and_start_task and prefill_loop (observed {sorted(c.split("::")[-1] for c in callers)})', None)
    # retract_tasks: reads/removes prefilled_tasks and never touches running_tasks
    from hqrules.templates import field_read_sites
    _r066_closure(ctx, prog, rt)
    touches_pref = any(b.path in prog.with_closures(rt.path) for o, b, bi, st in field_read_sites(prog, T + 'worker::state::WorkerState', 'prefilled_tasks'))
    touches_run = any(b.path in prog.with_closures(rt.path) for o, b, bi, st in field_read_sites(prog, T + 'worker::state::WorkerState', 'running_tasks'))
    ctx.ob('R06.6', 'retract_tasks|operates on backlog only', touches_pref and not touches_run,
           'retract_tasks removes from the backlog (prefilled_tasks) and never from running_tasks', rt.loc())


def _r066_closure(ctx, prog, rt):
    """retain closure of retract_tasks: push(id) and `false` (remove) on the contains()==true edge only."""
    from hqrules.templates import guard_edges, dominated_by_edges
    from hqrules.core import op_const
    SETC = {'hashbrown::set::HashSet::contains', 'std::collections::hash::set::HashSet::contains'}
    cl = [prog.bodies[p] for p in prog.with_closures(rt.path) if p != rt.path and prog.bodies[p].locals[0][0] == 'bool' and prog.bodies[p].call_blocks(SETC) and prog.bodies[p].call_blocks('alloc::vec::Vec::push')]
    ctx.require(cl, 'R06.6: retain closure of retract_tasks')
    b = cl[0]
    e_t, calls = guard_edges(b, SETC, True)
    push = b.call_blocks('alloc::vec::Vec::push')
    ctx.require(e_t and push, 'R06.6: contains()/push in the retain closure')
    ctx.ob('R06.6', 'retract_tasks|reported iff requested', all(dominated_by_edges(b, x, e_t, False) for x in push), 'an id is reported as given back only if it was requested', b.loc(push[0]))
    rf = [x for x in b.reachable() for s in b.stmts(x) if s['k'] == 'a' and s['p'] == [0, []] and s['rv'][0] == 'use' and op_const(s['rv'][1]) in ('false', 'const false')]
    rtrue = [x for x in b.reachable() for s in b.stmts(x) if s['k'] == 'a' and s['p'] == [0, []] and s['rv'][0] == 'use' and op_const(s['rv'][1]) in ('true', 'const true')]
    ok = bool(rf) and all(dominated_by_edges(b, x, e_t, False) for x in rf) and all(not dominated_by_edges(b, x, e_t, False) for x in rtrue)
    ctx.ob('R06.6', 'retract_tasks|removed iff reported', ok and all(any(y in b.reach_from([x]) or x in b.reach_from([y]) or x == y for y in rf) for x in push),
           'the task is removed from the backlog (retain -> false) exactly on the branch that reports it; every other task is kept', b.loc(rf[0]) if rf else b.loc())
