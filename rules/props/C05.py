"""C05 — the server never overbooks a worker and only places tasks where they can run."""
from hqrules.core import FailClosed, callee_of, callee_decl, op_local, op_place, place_key, place_fields, norm, op_const
from hqrules.templates import (Effect, check_arm_effect, pick_scrutinee, effect_blocks, guard_edges, dominated_by_edges,
                               receiver_root_key, must_pass, state_writes, variants_at, call_sites, loop_headers_containing,
                               local_field_sources, scrutinees, construct_sites)
from .common import *
from . import reactor_table

EXPLANATION = ('Decides structural necessary conditions of C05 on the built MIR: (R05.1) placement variables are created '
               'only under the eligibility guards on the same worker, (R05.2) every placement variable enters the per-worker '
               'resource-limit constraint, (R05.3) multi-node chunks depend on worker-group identity, (R05.4) multi-node '
               'reservation typestate, (R05.5) reservation bookkeeping follows the task state in every reactor / mapping arm.')
NOT_DECIDED = ['that the MILP solution respects the constraints (HiGHS is trusted)',
               'arithmetic of WorkerResources / time arithmetic (decided only: the time stamp of a round is read after the last await, R05.7)',
               'global never-overbooked invariant over all histories (only the per-transition pairing is decided)']
RELATED = {'C06': ['R06.2']}
ASSUMPTIONS = ['per-connection FIFO between server and worker (mode "may" rows)']

SOLVER = T + 'scheduler::solver::'


def run(ctx):
    prog = ctx.prog
    ctx.rule('R05.1', 'placement variables (create_sn_var/create_mn_var) are dominated, in every loop iteration, by the '
                      'eligibility guards evaluated on the same worker')
    ctx.rule('R05.2', 'the variable returned by create_*_var is pushed into worker_res_constraint and a Max constraint over it is '
                      'added for the worker')
    ctx.rule('R05.3', 'multi-node worker chunks must depend on worker-group identity (information-flow necessary condition)')
    ctx.rule('R05.4', 'multi-node placement typestate: set_mn_task on every chunk worker, RunningMultiNode written only from Waiting')
    ctx.rule('R05.5', 'reservation bookkeeping follows the old task state in every reactor/mapping arm (table DESIGN App. A)')

    solver = prog.body(SOLVER + 'run_scheduling_solver')
    # ---- R05.1
    guards = {
        'create_sn_var': [(WORKER + 'is_request_blocked', False), (WORKER + 'has_time_to_run', True),
                          (WORKER + 'have_immediate_resources_for_rq', True)],
        'create_mn_var': [(WORKER + 'is_free', True), (WORKER + 'has_time_to_run', True)],
    }
    for fn, gl in guards.items():
        sites = solver.call_blocks(SOLVER + fn)
        ctx.floor('R05.1', len(sites), 1, 'call sites of {fn} in run_scheduling_solver')
        for c in sites:
            t = solver.term[c]
            # worker argument: the argument whose type is &Worker
            wkey = None
            for a in t['args']:
                l = op_local(a)
                if l is not None and solver.locals[l][1] == T + 'server::worker::Worker':
                    wkey = receiver_root_key(solver, op_place(a))
            ctx.require(wkey is not None, f'R05.1: worker argument of {fn} not found')
            for pred, pol in gl:
                edges, calls = guard_edges(solver, pred, pol, receiver_key=wkey)
                ok = dominated_by_edges(solver, c, edges)
                ctx.ob('R05.1', f'{fn}|{pred.split("::")[-1]}={pol}', ok,
                       f'{fn} is created only when {pred.split("::")[-1]}() == {pol} on the same worker',
                       solver.loc(c), dict(guard_calls=[solver.loc(b) for b in calls], same_worker_key=wkey))
    # group capability for mn
    grp = T + 'server::workergroup::WorkerGroup::is_capable_to_run_rq'
    for c in solver.call_blocks(SOLVER + 'create_mn_var'):
        edges, calls = guard_edges(solver, grp, True)
        ctx.ob('R05.1', 'create_mn_var|group.is_capable_to_run_rq=True', dominated_by_edges(solver, c, edges),
               'create_mn_var only when the worker group can run the request', solver.loc(c))

    # ---- R05.2: result var flows into a push on worker_res_constraint; add_constraint reached after
    push = 'alloc::vec::Vec::push'
    addc = None
    for bi, t, c in solver.calls():
        if c and c.endswith('::add_constraint'):
            addc = c
    ctx.require(addc is not None, 'R05.2: add_constraint call not found in run_scheduling_solver')
    wrc = [l for l in range(len(solver.locals)) if solver.locals[l][0].startswith('alloc::vec::Vec<alloc::vec::Vec<(') and 'f64' in solver.locals[l][0]]
    ctx.require(len(wrc) == 1, f'R05.2: the per-resource constraint table (Vec<Vec<(Variable, f64)>>) not identified: {wrc}')
    for fn in ('create_sn_var', 'create_mn_var'):
        for c in solver.call_blocks(SOLVER + fn):
            v = solver.term[c]['d'][0]
            tainted = solver.taint_forward([v])
            pushes = []
            for bi, t, cal in solver.calls():
                if cal == push and bi in solver.reachable() and len(t['args']) == 2:
                    if op_local(t['args'][1]) in tainted and wrc[0] in solver.derived_from(op_local(t['args'][0])):
                        pushes.append(bi)
            ok = bool(pushes) and all(solver.exists_path([c], [p]) for p in pushes[:1])
            if fn == 'create_sn_var':
                bad_src = []
                for pb_ in pushes:
                    if v not in solver.derived_from(op_local(solver.term[pb_]['args'][1]), through_mutation=False):
                        continue   # a push of another variable (e.g. the reservation variable, which does reserve the free amount)
                    fs_ = local_field_sources(solver, op_local(solver.term[pb_]['args'][1]), through_mutation=False)
                    if 'free_resources' in fs_:
                        bad_src.append(pb_)
                ctx.ob('R05.2', 'create_sn_var|coefficient not from free resources', not bad_src,
                       'the amount a placement consumes in the worker constraint comes from the request (or, for `all`, from the TOTAL worker resources); a coefficient read from the free summary shrinks with load and lets `all` overbook', solver.loc(bad_src[0]) if bad_src else solver.loc(c))
            ctx.ob('R05.2', f'{fn}|pushed', ok, f'variable of {fn} is pushed into worker_res_constraint', solver.loc(c))
            # constraint reached: from the push, every path to the next outer-loop iteration / exit passes add_constraint
            #   (add_constraint is inside `for c in worker_res_constraint` guarded by !free.is_max() && !c.is_empty(): mode may)
            acs = [bi for bi, t, cal in solver.calls() if cal == addc and bi in solver.reachable()
                   and t['args'] and any(wrc[0] in solver.derived_from(op_local(a)) for a in t['args'] if op_local(a) is not None)]
            ok2 = bool(acs) and bool(pushes) and any(solver.exists_path([pushes[0]], [a]) for a in acs)
            ctx.ob('R05.2', f'{fn}|constraint', ok2,
                   f'a Max constraint over worker_res_constraint is reachable after the push of the {fn} variable', solver.loc(c))

    # ---- R05.3: the chunking of mn workers depends on group identity
    # sink: the insert into result.mn_workers ; its value must derive from worker_groups iteration or a `group` field read
    ins_blocks = []
    for bi, t, cal in solver.calls():
        if bi in solver.reachable() and cal in HASH_INSERT and t['args']:
            l = op_local(t['args'][0])
            if l is not None and 'mn_workers' in local_field_sources(solver, l):
                ins_blocks.append(bi)
    ctx.floor('R05.3', len(ins_blocks), 1, 'insert into SchedulingSolution.mn_workers')
    wg = [l for l in range(len(solver.locals)) if 'worker_groups' in [f for bi_, k_, p_ in solver.defs().get(l, ()) if k_ == 'a' for pl_ in __import__('hqrules.core', fromlist=['rv_places']).rv_places(p_['rv']) for f, a_, v_ in place_fields(pl_)]]
    for bi in ins_blocks:
        t = solver.term[bi]
        val = op_local(t['args'][2]) if len(t['args']) > 2 else None
        srcs = solver.derived_from(val) if val is not None else set()
        dep_group = bool(set(wg) & srcs)
        if not dep_group:
            # or a read of WorkerConfiguration.group in the slice
            for l in srcs:
                if 'group' in local_field_sources(solver, l):
                    dep_group = True
                    break
        ctx.ob('R05.3', 'mn_workers|depends_on_group', dep_group,
               'the worker lists stored in mn_workers derive from worker-group identity (worker_groups / configuration.group); '
               'chunking an id-sorted list cannot guarantee single-group chunks', solver.loc(bi),
               dict(value_local=val))

    # ---- R05.4
    ctm = prog.body(MAPPING + 'create_task_mapping')
    sets = ctm.call_blocks(WORKER + 'set_mn_task')
    ctx.floor('R05.4', len(sets), 1, 'set_mn_task in create_task_mapping')
    mnw = [(bi, s, v, pl) for bi, s, v, pl in state_writes(ctm, TRS) if v == 'RunningMultiNode']
    # RunningMultiNode is produced via mem::replace(&mut task.state, RunningMultiNode(..)) : aggregate then call
    agg_blocks = [bi for bi in ctm.reachable() for s in ctm.stmts(bi)
                  if s['k'] == 'a' and s['rv'][0] == 'agg' and s['rv'][1][0] == 'adt' and norm(s['rv'][1][1]) == TRS and s['rv'][1][2] == 'RunningMultiNode']
    ctx.floor('R05.4', len(agg_blocks), 1, 'RunningMultiNode constructed in create_task_mapping')
    for ab in agg_blocks:
        # set_mn_task precedes in the same iteration
        hs = loop_headers_containing(ctm, ab)
        src = [hs[0]] if hs else [0]
        from_h = ctm.reach_from(src, avoid=[ab])
        ok = any(sb in from_h and ab in ctm.reach_from([sb]) for sb in sets)
        ctx.ob('R05.4', 'create_task_mapping|set_mn_task before RunningMultiNode', ok,
               'the iteration that marks a task RunningMultiNode reserves its workers with set_mn_task first '
               '(mode may: the reservation sits in a for-loop over the chunk)', ctm.loc(ab))
    allc = []
    for owner, b, bi, s in __import__('hqrules.templates', fromlist=['construct_sites']).construct_sites(prog, TRS, 'RunningMultiNode'):
        if is_test_util(owner):
            continue
        allc.append(owner)
        ctx.ob('R05.4', f'construct RunningMultiNode|{owner.split("::")[-1]}', owner == MAPPING + 'create_task_mapping',
               'RunningMultiNode is constructed only at multi-node placement', b.loc(bi))
    smn = prog.body(WORKER + 'set_mn_task')
    asserted = [bi for bi, t, c in smn.calls() if c == WORKER + 'is_free' or c == WORKER + 'is_free']
    ctx.ob('R05.4', 'set_mn_task|asserts is_free', bool(asserted) or bool(smn.call_blocks(lambda c: c.endswith('is_free'))) or _has_assert(smn),
           'set_mn_task refuses a worker that is not free (assertion)', smn.loc())

    # ---- R05.6 primitive reservation operations: set membership and free-resource summary move together
    ctx.rule('R05.6', 'Worker reservation primitives update the assigned set and the free-resource summary together (insert: remove from free; remove: add back; prefilled->started: both)')
    WA = T + 'server::worker::WorkerAssignment'
    SET_INS = {'hashbrown::set::HashSet::insert', 'std::collections::hash::set::HashSet::insert'}
    SET_REM = {'hashbrown::set::HashSet::remove', 'std::collections::hash::set::HashSet::remove'}
    def prim(fn, set_calls, field, free_suffix):
        b = prog.body(WORKER + fn)
        sc = [bi for bi in b.call_blocks(set_calls) if field in local_field_sources(b, op_local(b.term[bi]['args'][0]), through_mutation=False)]
        fc = [bi for bi in b.call_blocks(lambda c: c.endswith(free_suffix)) if 'free_resources' in local_field_sources(b, op_local(b.term[bi]['args'][0]), through_mutation=False)]
        entries, region = b.arm_entries(WA, {'Sn'})
        ok1, _ = must_pass(b, entries, sc) if sc and entries else (False, None)
        ok2, _ = must_pass(b, entries, fc) if fc and entries else (False, None)
        ctx.ob('R05.6', f'{fn}|{field} updated', ok1, f'{fn} updates {field} on every path of the single-node arm', b.loc(sc[0]) if sc else b.loc())
        ctx.ob('R05.6', f'{fn}|free resources {free_suffix.split("::")[-1]}', ok2, f'{fn} applies WorkerResources free summary ::{free_suffix.split("::")[-1]} on every path of the single-node arm', b.loc(fc[0]) if fc else b.loc())
    prim('insert_sn_task', SET_INS, 'assigned_tasks', 'WorkerLoad::remove' if False else '::remove')
    prim('remove_sn_task', SET_REM, 'assigned_tasks', '::add')
    prim('task_from_prefilled_to_started', SET_INS, 'assigned_tasks', '::remove')
    b_ = prog.body(WORKER + 'task_from_prefilled_to_started')
    pr = [bi for bi in b_.call_blocks(SET_REM) if 'prefilled_tasks' in local_field_sources(b_, op_local(b_.term[bi]['args'][0]), through_mutation=False)]
    ctx.ob('R05.6', 'task_from_prefilled_to_started|leaves the backlog set', bool(pr), 'a started backlog task leaves prefilled_tasks', b_.loc(pr[0]) if pr else b_.loc())
    rmn = prog.body(WORKER + 'reset_mn_task')
    wr = [1 for bi, st, pl, fs in rmn.field_writes() if fs and fs[-1][0] == 'assignment']
    ctx.ob('R05.6', 'reset_mn_task|back to an empty sn assignment', bool(wr) and bool(rmn.call_blocks(WA + '::empty_sn')), 'a freed multi-node worker gets a fresh empty single-node assignment', rmn.loc())

    # ---- R05.7 the time stamp of a scheduling round is taken after the last suspension point
    ctx.rule('R05.7', 'lifetime gate uses a fresh clock: every path from an await of scheduler_loop to run_scheduling passes an Instant::now() whose value is the `now` argument (a stamp taken before a sleep over-estimates the remaining lifetime of every worker)')
    SCHED = T + 'scheduler::main::'
    slc = [prog.bodies[p_] for p_ in prog.with_closures(SCHED + 'scheduler_loop') if prog.bodies[p_].kind == 'coroutine']
    ctx.require(slc, 'R05.7: scheduler_loop coroutine')
    sl = slc[0]
    rsb = sl.call_blocks(SCHED + 'run_scheduling')
    ctx.floor('R05.7', len(rsb), 1, 'run_scheduling calls in scheduler_loop')
    for rb in rsb:
        al = op_local(sl.term[rb]['args'][2])
        src = sl.derived_from(al, through_mutation=False) if al is not None else set()
        nows = [bi for bi in sl.call_blocks(lambda c: c.endswith('time::Instant::now')) if sl.term[bi]['d'][0] in src]
        ctx.ob('R05.7', 'scheduler_loop|now argument comes from Instant::now', bool(nows), 'the time stamp handed to run_scheduling is read from the clock inside the loop', sl.loc(rb))
        stale = {'before the round': [], 'retry after NeedMoreCompute': []}
        for y in sl.yields():
            succ = [x for x in sl.succ[y] if not sl.cleanup[x]]
            if rb in sl.reach_from(succ, avoid=nows):
                stale['retry after NeedMoreCompute' if sl.dominates(rb, y) else 'before the round'].append(y)
        for k_, ys in stale.items():
            ctx.ob('R05.7', f'scheduler_loop|fresh time stamp|{k_}', not ys,
                   f'no await ({k_}) lies between the clock read and the scheduling round that uses it' + (f' (await at {sl.loc(ys[0])} reaches run_scheduling without a new Instant::now())' if ys else ''),
                   sl.loc(ys[0]) if ys else sl.loc(rb))

    # ---- R05.8 the lifetime predicate itself
    ctx.rule('R05.8', 'Worker::has_time_to_run answers "yes, unconditionally" only for a worker WITHOUT a time limit (termination_time == None read directly); with a limit the answer comes from a comparison of now + request with the limit (an expired worker must not look unlimited)')
    OPT5 = 'core::option::Option'
    ht = prog.body(WORKER + 'has_time_to_run')
    tkeys = [k for k in scrutinees(ht, OPT5) if 'termination_time' in k]
    uncond = [(bi, st) for bi in ht.reachable() for st in ht.stmts(bi) if st['k'] == 'a' and st['p'] == [0, []] and st['rv'][0] == 'use' and op_const(st['rv'][1]) is not None and str(op_const(st['rv'][1])).replace('const ', '').startswith('true')]
    ok_u = all(tkeys and set(variants_at(ht, OPT5, bi, tkeys[0]) or ()) == {'None'} for bi, st in uncond)
    lenient = []
    for bi, t, c in ht.calls():
        if bi in ht.reachable() and (c or '').startswith('core::option::Option::') and (c or '').endswith(('is_none_or', 'map_or', 'is_none', 'unwrap_or', 'unwrap_or_default', 'unwrap_or_else', 'map_or_else')):
            pl = op_place(t['args'][0])
            direct = pl is not None and any(f == 'termination_time' for f, a, v in place_fields(ht.canon(pl)))
            if not direct:
                lenient.append(bi)
    ctx.ob('R05.8', 'has_time_to_run|unconditional yes only without a time limit', ok_u and not lenient and (bool(uncond) or any((c or '').startswith('core::option::Option::') for bi, t, c in ht.calls())),
           'the answer "true" without a comparison is given only when the termination_time field itself is None (not when a derived Option such as remaining_time() is None: that is also None for an expired worker)', ht.loc(lenient[0]) if lenient else ht.loc())
    cmpc = [bi for bi, t, c in ht.calls() if bi in ht.reachable() and (callee_decl(t) or '').endswith(('PartialOrd::le', 'PartialOrd::lt', 'PartialOrd::ge', 'PartialOrd::gt'))]
    cmpc += [bi for p_ in prog.children(ht.path) for bi, t, c in prog.bodies[p_].calls() if (callee_decl(t) or '').endswith(('PartialOrd::le', 'PartialOrd::lt', 'PartialOrd::ge', 'PartialOrd::gt'))]
    ctx.ob('R05.8', 'has_time_to_run|limit compared', bool(cmpc), 'with a time limit the request is compared with the limit', ht.loc(cmpc[0]) if cmpc and cmpc[0] < ht.n else ht.loc())

    # ---- R05.9 worker side: every task the worker starts has passed its own lifetime test
    ctx.rule('R05.9', 'worker: launch_task is reached only after the remaining lifetime of the worker was compared with the min_time of the request - on the direct path (try_alloc_and_start_task) and on the path that starts pre-sent tasks (prefill_loop), for which the server applies no lifetime gate')
    WRE = T + 'worker::reactor::'
    MINT = lambda c: c.endswith('ResourceRequest::min_time')
    def gated(path, target_blocks_of):
        """the target is dominated by the inspection of an Option<Duration> (the remaining lifetime; None = no limit) whose Some
        arm compares it with min_time()"""
        b_ = prog.body(path)
        tb_ = target_blocks_of(b_)
        sws = []
        for bi_ in b_.reachable():
            si_ = b_.switch_info(bi_)
            if si_ and si_.get('kind') == 'discr' and si_.get('enum') == 'core::option::Option':
                pl_ = si_['place']
                ty_ = b_.locals[pl_[0]][0] if not pl_[1] else ''
                if 'core::time::Duration' in ty_ and ty_.startswith('core::option::Option<'):
                    sws.append(bi_)
        mt_ = b_.call_blocks(MINT)
        cmp_ = [bi_ for bi_, t_, c_ in b_.calls() if bi_ in b_.reachable() and (callee_decl(t_) or '').endswith(('PartialOrd::lt', 'PartialOrd::le', 'PartialOrd::gt', 'PartialOrd::ge'))
                and any(op_local(a_) is not None and any(b_.term[m_]['d'][0] in b_.derived_from(op_local(a_), through_mutation=False) for m_ in mt_) for a_ in t_['args'])]
        ok_ = bool(tb_) and bool(cmp_) and any(all(x not in b_.reach_from([0], avoid=[sw_]) for x in tb_) and any(c_ in b_.reach_after(sw_) for c_ in cmp_) for sw_ in sws)
        return b_, sws, tb_, ok_
    tsb, g0, l0, ok0 = gated(WRE + 'try_start_task', lambda b_: b_.call_blocks(WRE + 'launch_task'))
    ctx.require(l0, 'R05.9: launch_task call in try_start_task')
    if ok0:
        ctx.ob('R05.9', 'try_start_task|lifetime test before launch', True, 'the min_time test dominates launch_task in the common funnel try_start_task', tsb.loc(l0[0]))
    else:
        for caller in ('try_alloc_and_start_task', 'prefill_loop'):
            cb_, g_, tb_, okc = gated(WRE + caller, lambda b_: b_.call_blocks(WRE + 'try_start_task'))
            ctx.ob('R05.9', f'{caller}|lifetime test before try_start_task', okc, f'try_start_task does not test the lifetime itself, so {caller} has to before it calls it', cb_.loc(tb_[0]) if tb_ else cb_.loc())
    callers9 = set(o for o, b_, bi in call_sites(prog, WRE + 'launch_task') if not is_test_util(o))
    ctx.ob('R05.9', 'launch_task|callers', callers9 == {WRE + 'try_start_task'}, f'launch_task is called only by try_start_task (observed {sorted(x.split("::")[-1] for x in callers9)})', None)

    # ---- R05.10 the redirect names the worker that holds the reservation
    ctx.rule('R05.10', 'create_task_mapping: the redirect recorded for a task that is still being retracted names the worker on which insert_sn_task just reserved the resources (the loop target), never the worker carried by the Retracting state (the source): on_retract_response assigns the task to the recorded worker')
    ctm10 = prog.body(T + 'scheduler::mapping::create_task_mapping')
    insn = ctm10.call_blocks(WORKER + 'insert_sn_task')
    gwm = [bi for bi in ctm10.call_blocks({WORKERMAP + 'get_worker_mut'})]
    rins = [bi for bi, t, c in ctm10.calls() if bi in ctm10.reachable() and (c or '').endswith(('HashMap::insert', 'Map::insert')) and 'redirects' in local_field_sources(ctm10, op_local(t['args'][0]), through_mutation=False)]
    ctx.require(insn and rins, 'R05.10: insert_sn_task / redirects.insert in create_task_mapping')
    # the id the reservation was made on: the key argument of the get_worker_mut whose result receives insert_sn_task
    tgt_src = set()
    for bi in insn:
        recv = op_local(ctm10.term[bi]['args'][0])
        for g in gwm:
            if recv is not None and ctm10.term[g]['d'][0] in ctm10.derived_from(recv, through_mutation=False):
                k = op_local(ctm10.term[g]['args'][1])
                if k is not None:
                    tgt_src |= {x for x in ctm10.derived_from(k, through_mutation=False) if 'WorkerId' in ctm10.locals[x][0]}
    for bi in rins:
        vl = op_local(ctm10.term[bi]['args'][2])
        first = None
        sd = ctm10.single_def(vl) if vl is not None else None
        if sd and sd[1] == 'a' and sd[2]['rv'][0] == 'agg' and sd[2]['rv'][1][0] == 'tuple':
            first = op_local(sd[2]['rv'][2][0])
        fsrc = ctm10.derived_from(first, through_mutation=False) if first is not None else set()
        from_state = any(any(f == 'state' for f, a_, v_ in place_fields(pl_)) for x in fsrc for d_ in ctm10.defs().get(x, ()) if d_[1] == 'a' for pl_ in __import__('hqrules.core', fromlist=['rv_places']).rv_places(d_[2]['rv']))
        ctx.ob('R05.10', 'create_task_mapping|redirect target = reserved worker', first is not None and bool(tgt_src & fsrc) and not from_state,
               'the worker id stored in redirects derives from the loop target the reservation was made on and not from the worker recorded in the task state', ctm10.loc(bi))

    # ---- R05.11 what the user asked for reaches the server: command line and #HQ directives are merged
    ctx.rule('R05.11', 'client: OptsWithMatches::overwrite merges the placement-relevant options (nodes, cpus, resource, time_request) from BOTH the command line and the #HQ directives of the script; a field copied from one side only silently drops the other (a dropped time request arrives as min_time = 0 and passes every lifetime gate)')
    OVW = [p_ for p_ in prog.bodies if p_.endswith('::overwrite') and 'submit::command' in p_ and prog.bodies[p_].kind in ('fn', 'method')]
    ctx.require(len(OVW) == 1, f'R05.11: overwrite() of the submit options not found ({OVW})')
    ob_ = prog.body(OVW[0])
    SJO = 'hyperqueue::client::commands::submit::command::SubmitJobTaskConfOpts'
    n11 = 0
    for o_, b_, bi_, s_ in construct_sites(prog, SJO):
        if b_.path != ob_.path:
            continue
        names = s_['rv'][1][3]
        for fld in ('nodes', 'cpus', 'resource', 'time_request'):
            if fld not in names:
                continue
            op_ = s_['rv'][2][names.index(fld)]
            l_ = op_local(op_)
            src = ob_.derived_from(l_) if l_ is not None else set()
            n11 += 1
            ctx.ob('R05.11', f'overwrite|{fld} merged from both sources', {1, 2} <= src, f'{fld} of the merged options depends on the command-line options (self) and on the directive options (other)', ob_.loc(bi_, s_))
    ctx.floor('R05.11', n11, 4, 'placement-relevant fields of the merged submit options')

    # ---- R05.12 what "free" means
    ctx.rule('R05.12', 'Worker::is_free (the gate for multi-node placement and for the idle stop) looks into every task container of the single-node assignment: assigned_tasks AND prefilled_tasks (set_mn_task replaces the whole assignment; a pre-sent task the worker later starts on its own would find no bookkeeping)')
    isf = prog.body(WORKER + 'is_free')
    SNA = T + 'server::worker::SingleNodeTaskAssignment'
    sna = prog.adt(SNA)
    flds = sna.get('fields') or sna['variants'][0]['fields']
    holders12 = [(f['name'] if isinstance(f, dict) else f[0]) for f in flds if 'TaskId' in (f['ty'] if isinstance(f, dict) else f[1]) and 'Set<' in (f['ty'] if isinstance(f, dict) else f[1]).replace('HashSet<', 'Set<')]
    ctx.floor('R05.12', len(holders12), 2, 'task sets of SnAssignment')
    from hqrules.templates import field_read_sites
    for f in holders12:
        rd = any(b_.path in prog.with_closures(isf.path) for o_, b_, bi_, st_ in field_read_sites(prog, SNA, f))
        ctx.ob('R05.12', f'is_free|reads {f}', rd, f'is_free inspects SnAssignment.{f}', isf.loc())
    smn12 = prog.body(WORKER + 'set_mn_task')
    ctx.ob('R05.12', 'set_mn_task|guarded by is_free', bool(smn12.call_blocks(WORKER + 'is_free')), 'set_mn_task asserts is_free() before it replaces the assignment', smn12.loc())

    # ---- R05.5 reactor rows + mapping rows
    n = reactor_table.run_rows(ctx, 'R05.5', 'C05')
    ctx.floor('R05.5', n, 20, 'reactor rows for C05')
    # create_task_mapping rows
    scrut = pick_scrutinee(ctm, TRS, root_callees=reactor_table.GET, last_field='state')
    sn_ins = effect_blocks(prog, ctm, E_W_INS)
    ctx.floor('R05.5', len(sn_ins), 1, 'insert_sn_task in create_task_mapping')
    check_arm_effect(ctx, 'R05.5', ctm, TRS, {'Retracting'}, E_R_INS, 'must', scrut,
                     'the new target reservation made by insert_sn_task must be owned by a redirect on every path',
                     exits=_iteration_exits(ctm, scrut))
    check_arm_effect(ctx, 'R05.5', ctm, TRS, {'Prefilled'}, E_R_INS, 'must', scrut, 'stolen backlog task gets a redirect to the new target',
                     exits=_iteration_exits(ctm, scrut))
    check_arm_effect(ctx, 'R05.5', ctm, TRS, {'Prefilled'}, E_W_PF_REM, 'must', scrut, 'stolen backlog task leaves the old worker backlog',
                     exits=_iteration_exits(ctm, scrut))
    check_arm_effect(ctx, 'R05.5', ctm, TRS, {'Retracting'}, E_W_REM, 'may', scrut, 'a replaced redirect target loses its reservation (mode may: only when a redirect existed)')
    # every taken sn task is reserved on its target before the state is inspected
    for e in ctm.arm_entries(TRS, set(prog.variants(TRS)) - {'Assigned', 'Running', 'RunningMultiNode', 'Finished'}, scrut)[0][:1]:
        pass
    reads = [bi for bi, s, pl, en in ctm.discr_reads(TRS) if ctm.canon_key(pl) == scrut]
    for rb in reads[:1]:
        hs = loop_headers_containing(ctm, rb)
        src = [hs[0]] if hs else [0]
        ctx.ob('R05.5', 'create_task_mapping|insert_sn_task before state match', rb not in ctm.reach_from(src, avoid=sn_ins),
               'every task taken from the queue is reserved on its target worker (insert_sn_task) in the same iteration', ctm.loc(rb))
    # process_proactive_filling
    ppf = prog.body(MAPPING + 'process_proactive_filling')
    pw = [(bi, s, v, pl) for bi, s, v, pl in state_writes(ppf, TRS) if v == 'Prefilled']
    ctx.floor('R05.5', len(pw), 1, 'Prefilled written in process_proactive_filling')
    pf_add = effect_blocks(prog, ppf, E_W_PF_ADD)
    for bi, s, v, pl in pw:
        hs = loop_headers_containing(ppf, bi)
        ok, wit = must_pass(ppf, [bi], pf_add, exits=[hs[0]] if hs else None)
        ctx.ob('R05.5', 'process_proactive_filling|Prefilled->W.pf+', ok, 'a task marked Prefilled is added to the worker backlog in the same iteration', ppf.loc(bi))


def _has_assert(body):
    for bi in body.reachable():
        t = body.term[bi]
        if t and 'assert' in t.get('x', ''):
            return True
    return False


def _iteration_exits(body, scrut):
    """Exits for per-iteration obligations: innermost loop header of the scrutinee read + returns."""
    reads = [bi for bi, s, pl, en in body.discr_reads(TRS) if body.canon_key(pl) == scrut]
    ex = list(body.returns())
    for rb in reads[:1]:
        hs = loop_headers_containing(body, rb)
        ex += hs
    return ex
