"""C14 — max-fails: exceeding the limit aborts the rest of the job for good."""
from hqrules.core import FailClosed, callee_of, callee_decl, op_local, op_place, place_fields, norm, op_const
from hqrules.templates import (effect_blocks, must_pass, state_writes, variants_at, call_sites, construct_sites, Effect,
                               loop_headers_containing, owner_fn, scrutinees, guard_edges, dominated_by_edges,
                               local_field_sources, binops, operand_fields, bool_uses)
from .common import *
from . import job_table, shared_rules

EXPLANATION = ('Structural necessary conditions of C14 in State::process_task_failed / tako task_failed: the limit test is the strict '
               'comparison n_failed_tasks > max_fails evaluated after the failure was counted; on its true edge the ids returned to tako are '
               'exactly the ids that were aborted (one read of non_finished_task_ids taken before the abort); tako cancels what it is told; '
               'non_finished_task_ids selects exactly {Waiting, Running}.')
NOT_DECIDED = ['counts over all arrival orders (follows from R13.1 + atomic handlers, not separately decided)']
RELATED = {'C08': ['R08.1', 'R08.4'], 'C10': ['R10.6', 'R10.9', 'R10.7'], 'C12': ['R12.2', 'R12.1~^TasksAborted'], 'C01': ['R01.6~handle_task_with_signals']}
ASSUMPTIONS = []
PTF = HQ + 'state::State::process_task_failed'


def run(ctx):
    prog = ctx.prog
    ctx.rule('R14.1', 'the limit test is `n_failed_tasks > max_fails` (strict) on those two fields, evaluated after set_failed_state counted the failure')
    ctx.rule('R14.2', 'true edge: one non_finished_task_ids() read, taken before abort_tasks, flows into abort_tasks and into the returned vector; false edge returns an empty vector')
    ctx.rule('R14.3', 'tako task_failed hands the ids returned by on_task_error to on_cancel_tasks; the HQ callback returns what process_task_failed returned')
    ctx.rule('R14.4', 'non_finished_task_ids selects exactly {Waiting, Running}')
    ctx.rule('R14.5', 'every failure is counted: set_failed_state increments n_failed_tasks on every path (also for a task that fails while still Waiting)')

    b = prog.body(PTF)
    gts = [(bi, s, op, a, c) for bi, s, op, a, c in binops(b) if op in ('Gt', 'Ge', 'Lt', 'Le')]
    cmp_ = [(bi, s, op, a, c) for bi, s, op, a, c in gts if 'n_failed_tasks' in operand_fields(b, a) | operand_fields(b, c)]
    ctx.require(len(cmp_) == 1, f'R14.1: expected one comparison on n_failed_tasks, found {len(cmp_)}')
    bi, s, op, a, c = cmp_[0]
    lf, rf = operand_fields(b, a), operand_fields(b, c)
    strict = (op == 'Gt' and 'n_failed_tasks' in lf and 'max_fails' in rf) or (op == 'Lt' and 'max_fails' in lf and 'n_failed_tasks' in rf)
    ctx.ob('R14.1', 'process_task_failed|strict >', strict, f'limit test is n_failed_tasks > max_fails (observed {op} on {sorted(lf & {"n_failed_tasks", "max_fails"})} vs {sorted(rf & {"n_failed_tasks", "max_fails"})})', b.loc(bi, s))
    sfs = b.call_blocks(JOB + 'set_failed_state')
    ctx.require(sfs, 'R14.1: set_failed_state not called')
    ctx.ob('R14.1', 'process_task_failed|count before compare', bi not in b.reach_from([0], avoid=sfs), 'the failure is counted (set_failed_state) before the limit is tested', b.loc(bi, s))
    # true edge of the comparison
    cl = s['p'][0]
    uses = bool_uses(b, cl)
    ctx.require(uses, 'R14.1: comparison result not branched on')
    t_edges = set((sb, ts) for sb, ts, fs in uses)
    f_edges = set((sb, fs) for sb, ts, fs in uses)
    # ---- R14.2
    nf = b.call_blocks(JOB + 'non_finished_task_ids')
    ab = b.call_blocks(JOB + 'abort_tasks')
    ctx.floor('R14.2', len(ab), 1, 'abort_tasks calls in process_task_failed')
    true_region = set()
    for sb, ts in t_edges:
        true_region |= b.reach_from([ts], avoid_edges=f_edges)
    nf_t = [x for x in nf if dominated_by_edges(b, x, t_edges, False)]
    ab_t = [x for x in ab if dominated_by_edges(b, x, t_edges, False)]
    ctx.ob('R14.2', 'true edge|single read of non_finished_task_ids', len(nf_t) == 1 and len(nf) == 1, f'exactly one non_finished_task_ids() read on the limit-exceeded path (observed {len(nf_t)}); a second read after the abort is empty', b.loc(nf[0]) if nf else b.loc())
    ctx.ob('R14.2', 'true edge|abort_tasks', len(ab_t) == 1, 'the limit-exceeded path calls abort_tasks once', b.loc(ab_t[0]) if ab_t else b.loc())
    if nf_t and ab_t:
        ctx.ob('R14.2', 'true edge|read before abort', ab_t[0] in b.reach_from([nf_t[0]]) and nf_t[0] not in b.reach_after(ab_t[0]), 'the id list is read before the tasks are aborted', b.loc(nf_t[0]))
        idl = b.term[nf_t[0]]['d'][0]
        argl = op_local(b.term[ab_t[0]]['args'][1])
        ctx.ob('R14.2', 'true edge|ids flow into abort_tasks', idl in b.derived_from(argl), 'abort_tasks receives the ids read from non_finished_task_ids', b.loc(ab_t[0]))
        # returned value on the true path derives from the same read
        rets = [x for x in b.reachable() for st in b.stmts(x) if st['k'] == 'a' and st['p'] == [0, []] and x in true_region and dominated_by_edges(b, x, t_edges, False)]
        okr = False
        for x in rets:
            for st in b.stmts(x):
                if st['k'] == 'a' and st['p'] == [0, []]:
                    l = op_local(st['rv'][1]) if st['rv'][0] == 'use' else None
                    if l is not None and idl in b.derived_from(l):
                        okr = True
        ctx.ob('R14.2', 'true edge|ids returned', okr, 'the vector returned to tako on the limit-exceeded path is the one read before the abort', b.loc(rets[0]) if rets else b.loc())
    # false edge: returns Vec::new()
    vn = b.call_blocks('alloc::vec::Vec::new')
    okf = any(b.term[x]['d'] == [0, []] and not dominated_by_edges(b, x, t_edges, False) for x in vn)
    ctx.ob('R14.2', 'false edge|empty result', okf, 'within the limit the result is an empty vector (nothing is aborted for this reason)', b.loc())
    # the first abort_tasks (consumers) is not guarded by the limit and gets the aborted_tasks parameter
    first = [x for x in ab if x not in ab_t]
    ctx.ob('R14.2', 'consumers abort|param flows', bool(first) and bool(set(l for l in range(1, b.argc + 1) if b.locals[l][0].startswith('alloc::vec::Vec<tako::internal::common::ids::TaskId')) & b.derived_from(op_local(b.term[first[0]]['args'][1]))), 'the consumers handed in by tako are aborted unconditionally', b.loc(first[0]) if first else b.loc())

    # ---- R14.3
    shared_rules.error_result_reaches_cancel(ctx, 'R14.3')
    up = prog.body('<hyperqueue::server::tako_events::UpstreamEventProcessor as tako::events::EventProcessor>::on_task_error')
    pc = up.call_blocks(PTF)
    ctx.require(pc, 'R14.3: process_task_failed not called from on_task_error')
    rl = up.term[pc[0]]['d'][0]
    ret_ok = rl == 0 or any(st['k'] == 'a' and st['p'] == [0, []] and st['rv'][0] == 'use' and rl in up.derived_from(op_local(st['rv'][1]))
                            for x in up.reachable() for st in up.stmts(x) if op_local(st['rv'][1] if st['k'] == 'a' and st['rv'][0] == 'use' else None) is not None)
    ctx.ob('R14.3', 'on_task_error|returns process_task_failed result', ret_ok, 'the HQ callback returns the id list of process_task_failed to tako', up.loc(pc[0]))

    # ---- R14.5
    shared_rules.terminal_counter_on_every_path(ctx, 'R14.5', setters=('set_failed_state',)) if False else _r145(ctx)

    # ---- R14.4
    nfb = prog.body(JOB + 'non_finished_task_ids')
    sel = set()
    found = False
    for p in prog.with_closures(nfb.path):
        cb = prog.bodies[p]
        for k, st in cb.variant_flow(JTS).items():
            found = True
            if cb.locals[0][0] == 'bool':
                # filter(|..| matches!(state, ..)) form: the variants under which the predicate is set to true
                for bi2 in cb.reachable():
                    for s2 in cb.stmts(bi2):
                        if s2['k'] == 'a' and s2['p'] == [0, []]:
                            cv = op_const(s2['rv'][1]) if s2['rv'][0] == 'use' else None
                            if cv is None:
                                raise FailClosed('R14.4: selection predicate of non_finished_task_ids is not a constant per arm')
                            if str(cv).replace('const ', '').startswith('true'):
                                sel |= set(st.get(bi2) or prog.variants(JTS))
            else:
                # filter_map(|..| match state { .. => Some(..), .. => None }) form
                for owner, bb, bi2, s2 in construct_sites(prog, 'core::option::Option', 'Some'):
                    if bb.path == cb.path:
                        vs = st.get(bi2)
                        if vs:
                            sel |= set(vs)
    ctx.require(found, 'R14.4: JobTaskState match not found in non_finished_task_ids')
    ctx.ob('R14.4', 'non_finished_task_ids|{Waiting,Running}', sel == {'Waiting', 'Running'}, f'non_finished_task_ids yields exactly Waiting and Running tasks (observed {sorted(sel)})', nfb.loc())

    # ---- R14.6 the limit the user gave reaches the server
    ctx.rule('R14.6', 'client: OptsWithMatches::overwrite merges max_fails from the command line and from the #HQ directives of the script (a limit given only as a directive must reach JobDescription.max_fails)')
    OVW = [p_ for p_ in prog.bodies if p_.endswith('::overwrite') and 'submit::command' in p_ and prog.bodies[p_].kind in ('fn', 'method')]
    ctx.require(len(OVW) == 1, f'R14.6: overwrite() of the submit options not found ({OVW})')
    ob_ = prog.body(OVW[0])
    SJC = 'hyperqueue::client::commands::submit::command::SubmitJobConfOpts'
    n6 = 0
    for o_, b_, bi_, s_ in construct_sites(prog, SJC):
        if b_.path != ob_.path:
            continue
        names = s_['rv'][1][3]
        if 'max_fails' in names:
            l_ = op_local(s_['rv'][2][names.index('max_fails')])
            src = ob_.derived_from(l_) if l_ is not None else set()
            n6 += 1
            ctx.ob('R14.6', 'overwrite|max_fails merged from both sources', {1, 2} <= src, 'max_fails of the merged options depends on the command-line options (self) and on the directive options (other)', ob_.loc(bi_, s_))
    ctx.floor('R14.6', n6, 1, 'SubmitJobConfOpts built in overwrite()')


def _r145(ctx):
    from .job_table import counter_updates
    prog = ctx.prog
    b = prog.body(JOB + 'set_failed_state')
    cu = counter_updates(b)
    inc = [x[0] for x in cu if x[2] == 'n_failed_tasks' and x[3] == '+']
    n = 0
    for bi, s, v, pl in state_writes(b, JTS):
        if v != 'Failed':
            continue
        n += 1
        old = variants_at(b, JTS, bi)
        ok, _ = must_pass(b, [bi], inc)
        ctx.ob('R14.5', f'set_failed_state|{"+".join(sorted(old)) if old else "?"}->Failed|counted', ok or bi in inc,
               f'a failure from state {sorted(old) if old else old} increments n_failed_tasks (launch errors and crash-limit failures fail a task that is still Waiting)', b.loc(bi, s))
    ctx.floor('R14.5', n, 1, 'Failed writes in set_failed_state')
