"""C01 — every task gets exactly one terminal outcome, reported once, in order."""
from hqrules.core import FailClosed, callee_of, callee_decl, op_local, op_place, place_fields, norm, op_const
from hqrules.templates import (local_field_sources, effect_blocks, must_pass, state_writes, variants_at, call_sites, construct_sites, Effect,
                               check_arm_effect, pick_scrutinee, loop_headers_containing, owner_fn, scrutinees)
from .common import *
from . import reactor_table, job_table, shared_rules

EXPLANATION = ('Structural necessary conditions of C01: (tako) terminal announcements are paired with forgetting the task and nothing '
               'is announced for an unknown id; (HQ) the JobTaskState transition table only leaves Waiting/Running, each setter emits '
               'exactly one journal/client event after the write, Finished only from Running; (worker) Finished is produced only from a '
               'successful task result and a time-limit expiry stops the task and yields Failed; cancel_job is atomic (no await).')
NOT_DECIDED = ['that the composition of both layers over all message orders yields exactly one announcement (needs the reachable protocol state space)',
               'event order in the journal beyond single-writer (C10 R10.5)']
RELATED = {'C08': ['R08.2'], 'C06': ['R06.1'], 'C13': ['R13.2'], 'C02': ['R02.9', 'R02.8', 'R02.7']}
ASSUMPTIONS = ['per-connection FIFO; single-threaded LocalSet executor (interleaving only at await)']

OPTION = 'core::option::Option'
WTU = T + 'messages::worker::WorkerTaskUpdate'
TASKRESULT = 'tako::launcher::TaskResult'
HTF = T + 'worker::reactor::handle_task_future'


def run(ctx):
    prog = ctx.prog
    ctx.rule('R01.1', 'tako reactor: every terminal announcement (on_task_finished / on_task_error) is paired with Core::remove_task of the task in the same handler')
    ctx.rule('R01.2', 'tako reactor: the unknown-task (None) path of every worker-message handler announces nothing')
    ctx.rule('R01.3', 'HQ JobTaskState transitions leave only Waiting/Running; Running->Waiting only in set_waiting_state called from process_worker_lost')
    ctx.rule('R01.4', 'each HQ terminal setter emits exactly one EventStreamer::on_task_* event, after the state write, on every path')
    ctx.rule('R01.5', 'finish provenance: JobTaskState::Finished only from Running; on_task_finished only from the Finished worker update; WorkerTaskUpdate::Finished only under Ok(TaskResult::Finished); TaskResult::Finished only on the success edge')
    ctx.rule('R01.6', 'time limit: the sleep-won arm notifies the task (timeout stop) before re-awaiting; Timeout->Timeouted->Failed')
    ctx.rule('R01.7', 'cancel_job is atomic w.r.t. worker messages: no await between reading the non-terminal ids, ServerRef::cancel_tasks and Job::set_cancel_state')

    ctx.rule('R01.8', 'tasks announced aborted by max-fails are exactly the tasks tako is told to cancel (otherwise they start/finish after their terminal event)')
    ctx.rule('R01.9', 'ComputeTasksBuilder: when the shared task data is flushed into a message the configuration index is cleared (a stale index gives a task another task\'s body and time limit)')
    ctx.rule('R01.10', 'an outcome recorded in the journal is final across a restart: aborted/canceled tasks that never started are replayed as terminal (not resubmitted)')
    shared_rules.replay_records_missing_entry(ctx, 'R01.10')
    shared_rules.max_fails_ids(ctx, 'R01.8')
    shared_rules.error_result_reaches_cancel(ctx, 'R01.8')
    cmo = prog.body(T + 'server::task::ComputeTasksBuilder::create_message_on_overflow')
    takes = [bi for bi in cmo.call_blocks('core::mem::take') if 'shared_data' in local_field_sources(cmo, op_local(cmo.term[bi]['args'][0]))]
    clears = [bi for bi in cmo.call_blocks(lambda c: c.endswith('::clear')) if 'configuration_index' in local_field_sources(cmo, op_local(cmo.term[bi]['args'][0]))]
    ctx.require(takes, 'R01.9: mem::take(shared_data) missing')
    ok, wit = must_pass(cmo, takes, clears)
    ctx.ob('R01.9', 'create_message_on_overflow|take shared_data -> clear configuration_index', ok, 'configuration_index (indices into shared_data) is cleared whenever shared_data is taken', cmo.loc(takes[0]))
    # ---- R01.1
    n = reactor_table.run_rows(ctx, 'R01.1', 'C01')
    ctx.floor('R01.1', n, 6, 'reactor rows for C01')
    tf = prog.body(REACTOR + 'task_failed')
    err = effect_blocks(prog, tf, E_EV_ERROR)
    dele = tf.call_blocks(CORE + 'remove_task')
    ctx.floor('R01.1', len(err), 1, 'on_task_error in task_failed')
    for eb in err:
        ok = eb not in tf.reach_from([0], avoid=dele)
        ctx.ob('R01.1', 'task_failed|remove_task before on_task_error', ok, 'the failed task is forgotten before its failure is announced', tf.loc(eb))
    for evname, eff in (('on_task_finished', E_EV_FINISHED), ('on_task_error', E_EV_ERROR), ('on_task_started', E_EV_STARTED)):
        owners = set(o for o, b, bi in call_sites(prog, EVP + evname) if not is_test_util(o))
        exp = {'on_task_finished': {REACTOR + 'task_finished'}, 'on_task_error': {REACTOR + 'task_failed'},
               'on_task_started': {REACTOR + 'task_running'}}[evname]
        ctx.ob('R01.1', f'{evname}|single announcer', owners == exp, f'{evname} is invoked only from {sorted(x.split("::")[-1] for x in exp)} (observed {sorted(x.split("::")[-1] for x in owners)})', None)

    # ---- R01.2
    for h in ('task_running', 'task_finished', 'task_failed', 'task_reject'):
        b = prog.body(REACTOR + h)
        sc = [k for k, d in scrutinees(b, OPTION).items() if d['root_callee'] in reactor_table.FIND]
        ctx.require(len(sc) >= 1, f'R01.2: find_task result not matched in {h}')
        for k in sc[:1]:
            check_arm_effect(ctx, 'R01.2', b, OPTION, {'None'}, E_CLIENT, 'never', k, 'late message about a forgotten task announces nothing')
            check_arm_effect(ctx, 'R01.2', b, OPTION, {'None'}, E_MSG, 'never', k, 'late message about a forgotten task sends nothing to workers')

    # ---- R01.3
    ws = job_table.job_state_writes(prog)
    ctx.floor('R01.3', len(ws), 5, 'JobTaskState write sites')
    for owner, b, bi, s, new, old in ws:
        fn = owner.split('::')[-1]
        if owner.startswith(HQ + 'restore::') :
            continue   # replay arms are C10's
        key = f'{fn}|->{new}|old={"+".join(sorted(old)) if old else "?"}'
        if new == 'Waiting':
            okk = owner == JOB + 'set_waiting_state'
            ctx.ob('R01.3', key, okk, 'only set_waiting_state moves a task back to Waiting', b.loc(bi, s))
            continue
        ok = old is not None and set(old) <= {'Waiting', 'Running'}
        if new == 'Running':
            ok = old is not None and set(old) == {'Waiting'}
        ctx.ob('R01.3', key, ok, f'{fn} writes {new} only from a non-terminal state (observed old {sorted(old) if old else old})', b.loc(bi, s))
    callers = set(o for o, b, bi in call_sites(prog, JOB + 'set_waiting_state') if not is_test_util(o))
    ctx.ob('R01.3', 'set_waiting_state|caller', callers == {HQ + 'state::State::process_worker_lost'}, f'set_waiting_state called only from process_worker_lost (observed {sorted(callers)})', None)
    # initial state Waiting only in attach_submit
    for owner, b, bi, s in construct_sites(prog, HQ + 'job::JobTaskInfo'):
        if '::_::' in owner or is_test_util(owner) or ' as core::clone::Clone>' in owner:
            continue
        ctx.ob('R01.3', f'JobTaskInfo constructed|{owner.split("::")[-1]}', owner == JOB + 'attach_submit', 'task records are created only by attach_submit', b.loc(bi))

    # ---- R01.4
    EV = {'set_finished_state': 'on_task_finished', 'set_failed_state': 'on_task_failed', 'set_cancel_state': 'on_task_canceled', 'abort_tasks': 'on_task_aborted'}
    for fn, ev in EV.items():
        b = prog.body(JOB + fn)
        evb = b.call_blocks(STREAMER + ev)
        ctx.ob('R01.4', f'{fn}|one {ev} site', len(evb) == 1, f'{fn} has exactly one {ev} call site (observed {len(evb)})', b.loc())
        others = [bi for bi, t, c in b.calls() if c and c.startswith(STREAMER + 'on_task_') and c != STREAMER + ev and bi in b.reachable()]
        ctx.ob('R01.4', f'{fn}|no other task event', not others, f'{fn} emits no other task event', b.loc(others[0]) if others else b.loc())
        for bi, s, v, pl in state_writes(b, JTS):
            ok, wit = must_pass(b, [bi], evb)
            ctx.ob('R01.4', f'{fn}|->{v}|event after write', ok, f'after writing {v} every path to return emits {ev}', b.loc(bi, s))
        for e in evb:
            inloop = bool(loop_headers_containing(b, e))
            ctx.ob('R01.4', f'{fn}|{ev} not in loop', not inloop, 'the event is emitted once per call (not inside the per-task loop)', b.loc(e))
    # who may emit the terminal events
    for ev, allowed in (('on_task_finished', {JOB + 'set_finished_state'}), ('on_task_failed', {JOB + 'set_failed_state'}),
                        ('on_task_canceled', {JOB + 'set_cancel_state'}), ('on_task_aborted', {JOB + 'abort_tasks'}),
                        ('on_task_started', {HQ + 'state::State::process_task_started'})):
        owners = set(o for o, b, bi in call_sites(prog, STREAMER + ev) if not is_test_util(o))
        ctx.ob('R01.4', f'{ev}|emitters', owners == allowed, f'{ev} emitted only by {sorted(x.split("::")[-1] for x in allowed)} (observed {sorted(x.split("::")[-1] for x in owners)})', None)

    # ---- R01.5
    for owner, b, bi, s, new, old in ws:
        if new == 'Finished' and not owner.startswith(HQ + 'restore::'):
            ctx.ob('R01.5', f'{owner.split("::")[-1]}|Finished from Running', old is not None and set(old) == {'Running'}, 'Finished is written only from Running (a finish is preceded by a start)', b.loc(bi, s))
    otu = prog.body(REACTOR + 'on_task_update')
    for bi in otu.call_blocks(REACTOR + 'task_finished'):
        vs = variants_at(otu, WTU, bi)
        ctx.ob('R01.5', 'on_task_update|task_finished under Finished', vs is not None and set(vs) == {'Finished'}, f'task_finished dispatched only for WorkerTaskUpdate::Finished (observed {vs})', otu.loc(bi))
    tfc = set(o for o, b, bi in call_sites(prog, REACTOR + 'task_finished') if not is_test_util(o))
    ctx.ob('R01.5', 'task_finished|caller', tfc == {REACTOR + 'on_task_update'}, f'task_finished called only from on_task_update (observed {sorted(tfc)})', None)
    n = 0
    for owner, b, bi, s in construct_sites(prog, WTU, 'Finished'):
        if is_test_util(owner) or '::_::' in owner:
            continue
        n += 1
        okown = owner == HTF
        vs = variants_at(b, TASKRESULT, bi)
        ctx.ob('R01.5', f'WorkerTaskUpdate::Finished|{owner.split("::")[-1]}', okown and vs is not None and set(vs) == {'Finished'},
               f'the Finished update is produced only in handle_task_future under TaskResult::Finished (observed {vs})', b.loc(bi))
    ctx.floor('R01.5', n, 1, 'construct sites of WorkerTaskUpdate::Finished')
    # TaskResult::Finished constructed only in program.rs (success edge / no-pid early return) and launcher stubs
    n = 0
    for owner, b, bi, s in construct_sites(prog, TASKRESULT, 'Finished'):
        if is_test_util(owner):
            continue
        n += 1
        okf = b.file.endswith('worker/start/program.rs')
        detail = None
        if okf:
            # on the success edge of ExitStatus::success, or the `child.id() == None` early return
            from hqrules.templates import guard_edges, dominated_by_edges
            edges, calls = guard_edges(b, 'std::process::ExitStatus::success', True)
            dom = dominated_by_edges(b, bi, edges, iteration_precise=False) if edges else False
            if not dom:
                # allow-list: early return when the child has no pid (Option None arm of Child::id) ; final Ok of a helper
                vs = None
                for k, d in scrutinees(b, OPTION).items():
                    if d['root_callee'] and d['root_callee'].endswith('Child::id'):
                        st = b.variant_flow(OPTION).get(k, {})
                        vs = st.get(bi)
                detail = dict(success_guard=dom, child_id_arm=sorted(vs) if vs else None)
                okf = (vs is not None and set(vs) == {'None'}) or _is_tail_ok(b, bi)
        ctx.ob('R01.5', f'TaskResult::Finished|{owner.split("::")[-1]}', okf,
               'TaskResult::Finished is constructed only on the status.success() edge (allow-list: child without pid; launcher epilogue helper)', b.loc(bi), detail)
    ctx.floor('R01.5', n, 1, 'construct sites of TaskResult::Finished')

    # ---- R01.6
    htfs = [prog.bodies[p] for p in prog.with_closures(HTF) if prog.bodies[p].kind == 'coroutine']
    ctx.require(htfs, 'R01.6: handle_task_future coroutine not found')
    hb = htfs[0]
    EITHER = 'futures_util::future::either::Either'
    fl = hb.variant_flow(EITHER) if prog.enum(EITHER) else {}
    ctx.require(fl, 'R01.6: Either scrutinee not found in handle_task_future')
    notif = Effect('timeout.notify', callees={T + 'worker::task::RunningTask::send_timeout_notification', T + 'worker::task_comm::RunningTaskComm::send_timeout_notification'})
    nb = effect_blocks(prog, hb, notif)
    ctx.floor('R01.6', len(nb), 1, 'send_timeout_notification in handle_task_future')
    for k in fl:
        entries, region = hb.arm_entries(EITHER, {'Right'}, k)
        ys = [y for y in hb.yields() if y in region or y in hb.reach_from(entries)]
        # the first await reachable from the Right arm must come after the notification
        ok = all(y not in hb.reach_from(entries, avoid=nb) for y in ys if y in hb.reach_from(entries)) and bool(entries)
        first_ok = bool(entries) and not any(y in hb.reach_from(entries, avoid=nb) for y in hb.yields())
        ctx.ob('R01.6', 'handle_task_future|Right: notify before re-await', first_ok, 'when the sleep wins the task is told to stop before the future is awaited again', hb.loc(entries[0]) if entries else hb.loc())
    conv = prog.find_bodies(r'^<tako::launcher::TaskResult as core::convert::From>::from$')
    ctx.require(conv, 'R01.6: From<StopReason> for TaskResult not found')
    cb = conv[0]
    SR = 'tako::launcher::StopReason'
    m = {}
    for bi in cb.reachable():
        for s in cb.stmts(bi):
            if s['k'] == 'a' and s['rv'][0] == 'agg' and s['rv'][1][0] == 'adt' and norm(s['rv'][1][1]) == TASKRESULT:
                vs = variants_at(cb, SR, bi)
                for v in (vs or []):
                    m.setdefault(v, set()).add(s['rv'][1][2])
    ctx.ob('R01.6', 'StopReason->TaskResult', m.get('Timeout') == {'Timeouted'} and m.get('Cancel') == {'Canceled'}, f'Timeout maps to Timeouted, Cancel to Canceled (observed {m})', cb.loc())
    n = 0
    for owner, b, bi, s in construct_sites(prog, WTU, 'Failed'):
        if owner != HTF:
            continue
        vs = variants_at(b, TASKRESULT, bi)
        if vs and set(vs) == {'Timeouted'}:
            n += 1
    ctx.ob('R01.6', 'Timeouted->Failed update', n >= 1, 'the Timeouted result pushes a Failed update', hb.loc())
    for owner, b, bi, s in construct_sites(prog, WTU, 'Finished'):
        pass

    # signals: stop -> SIGINT, then SIGKILL when the process is still alive after the grace period
    hws = [prog.bodies[p_] for p_ in prog.with_closures('hyperqueue::worker::start::program::handle_task_with_signals')]
    sigc = [b for b in hws if b.kind == 'closure' and b.call_blocks(lambda c: c.endswith(('signal::killpg', 'signal::kill')))]
    ctx.require(len(sigc) == 1, 'R01.6: the signal-sending closure of handle_task_with_signals')
    ctx.ob('R01.6', 'handle_task_with_signals|signals go to the process group', bool(sigc[0].call_blocks(lambda c: c.endswith('signal::killpg'))) and not sigc[0].call_blocks(lambda c: c.endswith('signal::kill')),
           'stop signals are sent with killpg to the whole process group of the task (kill(pid) reaches only the group leader: children of a canceled or timed-out task keep running after its terminal report)', sigc[0].loc())
    SIG = 'nix::sys::signal::Signal'
    sent = {}
    for b in hws:
        for bi in b.call_blocks(sigc[0].path):
            t_ = b.term[bi]
            sv = set()
            for a_ in t_['args']:
                l_ = op_local(a_)
                for x in (b.derived_from(l_) if l_ is not None else ()):
                    for d in b.defs().get(x, ()):
                        if d[1] == 'a' and d[2]['rv'][0] == 'agg' and d[2]['rv'][1][0] == 'adt' and norm(d[2]['rv'][1][1]) == SIG:
                            sv.add(d[2]['rv'][1][2])
            for v in sv:
                sent.setdefault(v, []).append((b, bi))
    ctx.ob('R01.6', 'handle_task_with_signals|SIGINT on stop', 'SIGINT' in sent and all(b.kind == 'coroutine' and any(y in b.coreach([bi]) for y in b.yields()) for b, bi in sent.get('SIGINT', [])),
           'a stop request (cancel or time limit) is answered by SIGINT to the process group, after the request was received', sent['SIGINT'][0][0].loc(sent['SIGINT'][0][1]) if 'SIGINT' in sent else hws[0].loc())
    okk = False
    for b, bi in sent.get('SIGKILL', []):
        ev = variants_at(b, 'futures_util::future::either::Either', bi)
        rv_ = variants_at(b, 'core::result::Result', bi)
        tmo = b.call_blocks(lambda c: c.endswith('time::timeout::timeout'))
        if ev and set(ev) == {'Left'} and tmo and bi not in b.reach_from([0], avoid=tmo):
            okk = True
    ctx.ob('R01.6', 'handle_task_with_signals|SIGKILL after the grace period', okk, 'when the stop request won and the process is still alive after the timeout it is killed (SIGKILL)', sent['SIGKILL'][0][0].loc(sent['SIGKILL'][0][1]) if 'SIGKILL' in sent else hws[0].loc())
    # once a stop was requested (time limit / cancel) the outcome is the stop reason: the program's own exit result, which
    # the grace-period timeout hands back, is not looked at
    hco = [b for b in hws if b.kind == 'coroutine' and b.call_blocks(lambda c: c.endswith('time::timeout::timeout'))]
    ctx.require(hco, 'R01.6: coroutine of handle_task_with_signals awaiting the grace-period timeout')
    hb2 = hco[0]
    tres = [l_ for l_ in range(len(hb2.locals)) if 'time::error::Elapsed' in hb2.locals[l_][0] and hb2.locals[l_][0].startswith('core::result::Result<')]
    ctx.require(tres, 'R01.6: result of the awaited timeout not found')
    from hqrules.core import rv_places as _rvp
    reads = []
    for bi_ in hb2.reachable():
        for st_ in hb2.stmts(bi_):
            if st_['k'] != 'a':
                continue
            for pl_ in _rvp(st_['rv']):
                if pl_[0] in tres and any(isinstance(pr_, list) and pr_[0] == 'f' and len(pr_) > 4 and pr_[4] == 'Ok' for pr_ in pl_[1]):
                    reads.append((bi_, st_))
        t_ = hb2.term[bi_]
        if t_ and t_['k'] == 'call':
            for a_ in t_['args']:
                pl_ = op_place(a_)
                if pl_ and pl_[0] in tres and any(isinstance(pr_, list) and pr_[0] == 'f' and len(pr_) > 4 and pr_[4] == 'Ok' for pr_ in pl_[1]):
                    reads.append((bi_, None))
    ctx.ob('R01.6', 'handle_task_with_signals|stop reason wins over the exit result', not reads,
           'after a stop request the Ok payload of timeout(grace, task) - the exit result of the program - is never read: a program that traps SIGINT and exits 0 after its time limit must still be reported by the stop reason', hb2.loc(reads[0][0], reads[0][1]) if reads else hb2.loc())
    # ---- R01.7
    cjs = [prog.bodies[p] for p in prog.with_closures(HQ + 'client::cancel_job') if prog.bodies[p].kind == 'coroutine']
    ctx.require(cjs, 'R01.7: cancel_job coroutine not found')
    cj = cjs[0]
    a = cj.call_blocks(JOB + 'non_finished_task_ids')
    m_ = cj.call_blocks('tako::control::ServerRef::cancel_tasks')
    z = cj.call_blocks(JOB + 'set_cancel_state')
    ctx.require(a and m_ and z, 'R01.7: anchors of cancel_job missing')
    ys = set(cj.yields())
    from hqrules.templates import bodies_with_effect
    between = cj.reach_from(a) & cj.coreach(z)
    bad = sorted(between & ys)
    ctx.ob('R01.7', 'cancel_job|no await between read and set_cancel_state', not bad, 'no suspension point between non_finished_task_ids and set_cancel_state', cj.loc(bad[0]) if bad else cj.loc(a[0]))
    ok = not (set(m_) & cj.reach_from(z)) and any(x in cj.reach_from(m_) for x in z)
    ctx.ob('R01.7', 'cancel_job|core first', ok, 'the core is told to cancel before (never after) the job records the cancel '
           '(order only: the `!task_ids.is_empty()` guard around cancel_tasks makes plain dominance infeasible-path sensitive)', cj.loc(z[0]))


def _is_tail_ok(b, bi):
    """construct site in a helper whose only result is Ok(Finished) (no branching on status)."""
    return not any(t and t['k'] == 'sw' for t in (b.term[i] for i in b.reachable())) or b.path.endswith('::{closure#0}') and False
