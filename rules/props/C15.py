"""C15 — priorities (claimed ONLY for the same-request-class sub-case; the cross-class guarantee is not applicable to static analysis)."""
from hqrules.core import FailClosed, callee_of, callee_decl, op_local, op_place, place_fields, norm, op_const
from hqrules.templates import (effect_blocks, must_pass, state_writes, variants_at, call_sites, construct_sites, Effect,
                               loop_headers_containing, owner_fn, scrutinees, guard_edges, dominated_by_edges,
                               local_field_sources, binops, operand_fields, field_write_sites, field_read_sites)
from .common import *

EXPLANATION = ('C15 as stated is about the optimum of a MILP across request classes (cuts, blockers, gaps, reservations); that is a numeric property of solver '
               'output and is NOT decided (the seeded cross-class changes C15-a/C15-b are, as expected, not detected). One sub-case is shape-level and a '
               'genuine necessary condition: two ready tasks of the SAME request class fit the same workers, so the per-class queue must hand tasks to '
               'the scheduler in descending priority. Decided: (R15.1) the queue is ordered by Reverse<Priority> and every dispatch function takes from '
               'first_entry()/pop_first() only; (R15.2) create_task_mapping obtains tasks of a class only through those functions; (R15.3) Task::priority '
               'derives from user_priority through the order-preserving encoding.')
NOT_DECIDED = ['everything across request classes: priority cuts, blockers, gaps, reservation variables, min-utilization, the "may wait for a busier worker" exception (MILP optimum)']
ASSUMPTIONS = ['BTreeMap / BTreeSet iteration order (std)']
TQ_ADT = T + 'scheduler::taskqueue::TaskQueue'
PRIO = T + 'common::priority::Priority'


def run(ctx):
    prog = ctx.prog
    ctx.rule('R15.1', 'per-class queue is a BTreeMap<Reverse<Priority>, _>; dispatch functions remove from first_entry()/pop_first() only')
    ctx.rule('R15.2', 'create_task_mapping takes tasks of a class only through take_tasks / take_one')
    ctx.rule('R15.3', 'Task::priority() = Priority::from_user_priority(configuration.user_priority); the encoding flips the sign bit and shifts by 32')

    adt = prog.adt(TQ_ADT)
    qty = dict((f, ty) for f, ty in adt['variants'][0]['fields']).get('queue', '')
    ctx.ob('R15.1', 'queue type', 'BTreeMap<core::cmp::Reverse<' in qty and 'Priority' in qty, f'TaskQueue.queue : {qty[:120]}', None)
    oom = prog.adt(T + 'scheduler::taskqueue::OneOrMoreTaskIds')
    more = [v for v in oom['variants'] if v['name'] == 'More']
    ctx.ob('R15.1', 'per-priority set type', bool(more) and 'BTreeSet' in more[0]['fields'][0][1], 'tasks of one priority level are kept in a BTreeSet', None)
    takers = ['take_tasks', 'take_one', 'take_tasks_for_prefill']
    BT = 'alloc::collections::btree::map::BTreeMap::'
    for fn in takers:
        b = prog.body(TQ + fn)
        fe = b.call_blocks(BT + 'first_entry')
        other = [c for bi, t, c in b.calls() if bi in b.reachable() and c and c.startswith(BT) and c.split('::')[-1] in ('last_entry', 'pop_last', 'iter', 'get', 'get_mut', 'range', 'remove', 'values_mut', 'iter_mut', 'entry')]
        ctx.ob('R15.1', f'{fn}|first_entry only', bool(fe) and not other, f'{fn} reaches into the queue only through first_entry() (other accessors: {sorted(set(x.split("::")[-1] for x in other))})', b.loc())
    tfe = prog.body(T + 'scheduler::taskqueue::take_from_entry')
    pf = tfe.call_blocks(lambda c: c.endswith('BTreeSet::pop_first'))
    other = [c for bi, t, c in tfe.calls() if bi in tfe.reachable() and c and 'BTreeSet::' in c and c.split('::')[-1] in ('pop_last', 'iter', 'take', 'remove', 'last')]
    ctx.ob('R15.1', 'take_from_entry|pop_first', bool(pf) and not other, 'within one level ids are popped from the front; no other removal', tfe.loc())
    callers = set(o for o, b, bi in call_sites(prog, tfe.path) if not is_test_util(o))
    ctx.ob('R15.1', 'take_from_entry|callers', callers <= {TQ + 'take_tasks', TQ + 'take_tasks_for_prefill'}, f'take_from_entry is used only by the take functions (observed {sorted(x.split("::")[-1] for x in callers)})', None)
    # prefill set drained only when its priority is the queue top or above it: drain_prefill call sites in take_tasks
    tt = prog.body(TQ + 'take_tasks')
    dp = tt.call_blocks(T + 'scheduler::taskqueue::drain_prefill')
    ctx.floor('R15.1', len(dp), 1, 'drain_prefill calls')
    eqs = [(bi, t) for bi, t, c in tt.calls() if bi in tt.reachable() and (callee_decl(t) or '').endswith('PartialEq::eq')]
    ctx.ob('R15.1', 'take_tasks|prefill vs queue top compared', bool(eqs), 'the prefill priority is compared with the queue top before deciding the order', tt.loc(eqs[0][0]) if eqs else tt.loc())
    if eqs:
        e_t, _ = guard_edges(tt, callee_decl(eqs[0][1]), True)
        same = [x for x in dp if dominated_by_edges(tt, x, e_t, False)]
        fes = tt.call_blocks(T + 'scheduler::taskqueue::take_from_entry')
        ok = bool(same) and any(f in tt.coreach(same) and dominated_by_edges(tt, f, e_t, False) for f in fes)
        ctx.ob('R15.1', 'take_tasks|equal priority: queue level first, then prefill', ok, 'when the prefill set has the queue top priority the queue level is taken first, then the prefill set', tt.loc(same[0]) if same else tt.loc())
    # writers of the queue: add / add_many / remove + takers only
    wr = set(o for o, b, bi, st, k in field_write_sites(prog, TQ_ADT, 'queue') if not is_test_util(o))
    allowed = {TQ + x for x in ('add', 'add_many', 'remove', 'take_tasks', 'take_one', 'take_tasks_for_prefill', 'new')}
    ctx.ob('R15.1', 'queue|writers', wr <= allowed, f'TaskQueue.queue is modified only by the queue methods (others: {sorted(x.split("::")[-1] for x in wr - allowed)})', None)

    # ---- R15.2
    ctm = prog.body(MAPPING + 'create_task_mapping')
    used = set(c for bi, t, c in ctm.calls() if bi in ctm.reachable() and c and c.startswith(TQ))
    ctx.ob('R15.2', 'create_task_mapping|queue access', used == {TQ + 'take_tasks', TQ + 'take_one'}, f'create_task_mapping uses only take_tasks / take_one on the class queue (observed {sorted(x.split("::")[-1] for x in used)})', ctm.loc())
    tk = ctm.call_blocks(TQ + 'take_tasks')
    sm_ = [bi for bi in ctm.call_blocks(lambda c: c.endswith('Iterator::sum'))]
    ok = bool(tk) and bool(sm_) and ctm.term[sm_[0]]['d'][0] in ctm.derived_from(op_local(ctm.term[tk[0]]['args'][1]))
    ctx.ob('R15.2', 'create_task_mapping|takes sum(counts)', ok, 'exactly the number of tasks placed by the solution is taken from the class queue', ctm.loc(tk[0]) if tk else ctm.loc())

    # ---- R15.3
    tp = prog.body(TASK + '::priority')
    fup = PRIO + '::from_user_priority'
    c = tp.call_blocks(fup)
    ctx.ob('R15.3', 'Task::priority|from user_priority', bool(c) and 'user_priority' in local_field_sources(tp, op_local(tp.term[c[0]]['args'][0])) if c else False, 'Task::priority derives from configuration.user_priority alone', tp.loc())
    fb = prog.body(fup)
    ops = [(op, a, cc) for bi, s, op, a, cc in binops(fb)]
    xor = [1 for op, a, cc in ops if op == 'BitXor' and any(o[0] == 'k' and ('2147483648' in o[1] or '0x8000' in o[1]) for o in (a, cc))]
    shl = [1 for op, a, cc in ops if op.startswith('Shl') and any(o[0] == 'k' and '32_' in o[1] for o in (a, cc))]
    ctx.ob('R15.3', 'from_user_priority|sign flip and shift', bool(xor) and bool(shl), f'(x as u64 ^ 0x8000_0000) << 32 (observed ops {[o for o, a, cc in ops]})', fb.loc())
    # queue insertion uses Task::priority
    art = prog.body(TQS + 'add_ready_task')
    ctx.ob('R15.3', 'add_ready_task|keyed by Task::priority', bool(art.call_blocks(TASK + '::priority')), 'ready tasks are queued under Task::priority()', art.loc())
