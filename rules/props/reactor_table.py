"""Arm-effect table for the tako server reactor (DESIGN Appendix A), shared by C01/C05/C06/C08.

Row: (handler, scrutinee root callees, old-state variants, effect, mode, properties, reason).
The table is *semantic* (state -> bookkeeping owed, DESIGN 3); it is keyed by def path and variant name."""
from hqrules.core import FailClosed
from hqrules.templates import check_arm_effect, pick_scrutinee
from .common import *

FIND = {TASKMAP + 'find_task_mut', TASKMAP + 'find_task', CORE + 'find_task', CORE + 'find_task_mut'}
GET = {TASKMAP + 'get_task_mut', TASKMAP + 'get_task', CORE + 'get_task', CORE + 'get_task_mut'}

ROWS = [
    # ---------------- task_running
    ('task_running', FIND, {'Assigned'}, E_EV_STARTED, 'must', {'C01'}, 'a start is announced for a placed task'),
    ('task_running', FIND, {'Prefilled'}, E_W_PF2AS, 'must', {'C05'}, 'backlog entry becomes a reservation on the worker'),
    ('task_running', FIND, {'Prefilled'}, E_Q_REM, 'must', {'C05', 'C08'}, 'a started task leaves the prefill set of its queue'),
    ('task_running', FIND, {'Prefilled'}, E_EV_STARTED, 'must', {'C01'}, 'start announced'),
    ('task_running', FIND, {'Retracting'}, E_TRY_RM_REDIR, 'must', {'C05', 'C06'}, 'the redirect target reservation is dropped when the source worker starts the task itself'),
    ('task_running', FIND, {'Retracting'}, E_W_INS, 'must', {'C05'}, 'the running task is reserved on the worker that runs it'),
    ('task_running', FIND, {'Retracting'}, E_EV_STARTED, 'must', {'C01'}, 'start announced'),
    ('task_running', FIND, {'RunningMultiNode'}, E_EV_STARTED, 'must', {'C01'}, 'start announced'),
    ('task_running', FIND, {'RunningMultiNode'}, E_W_INS, 'never', {'C05'}, 'multi-node workers hold no sn reservation'),
    ('task_running', FIND, {'Assigned'}, E_W_INS, 'never', {'C05'}, 'already reserved at placement; a second insert double-books'),
    # ---------------- task_finished
    ('task_finished', FIND, {'Assigned', 'Running'}, E_W_REM, 'must', {'C05', 'C04'}, 'reservation released on finish'),
    ('task_finished', FIND, {'RunningMultiNode'}, E_W_MN_RESET, 'must', {'C05'}, 'all workers of a finished multi-node task are freed'),
    ('task_finished', FIND, {'Retracting'}, E_TRY_RM_REDIR, 'must', {'C05', 'C06'}, 'redirect target reservation dropped'),
    ('task_finished', FIND, {'Assigned', 'Running', 'RunningMultiNode', 'Retracting'}, E_EV_FINISHED, 'must', {'C01'}, 'finish announced'),
    ('task_finished', FIND, {'Assigned', 'Running', 'RunningMultiNode', 'Retracting'}, E_DEL, 'must', {'C01', 'C02'}, 'terminal task forgotten by the core'),
    # ---------------- task_failed (worker reported)
    ('task_failed', FIND, {'Assigned', 'Running'}, E_W_REM, 'must', {'C05'}, 'reservation released on failure'),
    ('task_failed', FIND, {'Prefilled'}, E_QPF_REM, 'must', {'C05', 'C08'}, 'failed backlog task leaves the prefill set'),
    ('task_failed', FIND, {'Prefilled'}, E_W_PF_REM, 'must', {'C05'}, 'failed backlog task leaves the worker backlog'),
    ('task_failed', FIND, {'Retracting'}, E_TRY_RM_REDIR, 'must', {'C05', 'C06'}, 'redirect target reservation dropped'),
    # ---------------- task_reject
    ('task_reject', FIND, {'Assigned'}, E_W_REM, 'may', {'C05'}, 'mode may: the two "invalid worker / invalid variant" log branches are unreachable under per-connection FIFO'),
    ('task_reject', FIND, {'Assigned'}, E_Q_ADD, 'must', {'C02', 'C05'}, 'rejected task becomes ready again'),
    ('task_reject', FIND, {'Prefilled'}, E_W_PF_REM, 'must', {'C05'}, 'rejected backlog task leaves the worker backlog'),
    ('task_reject', FIND, {'Prefilled'}, E_QPF_REM, 'must', {'C05'}, 'rejected backlog task leaves the prefill set'),
    ('task_reject', FIND, {'Prefilled'}, E_Q_ADD, 'must', {'C02'}, 'rejected task becomes ready again'),
    ('task_reject', FIND, {'Retracting'}, E_R_REM, 'may', {'C06'}, 'mode may: early return for a reject from a foreign worker'),
    # ---------------- on_cancel_tasks
    ('on_cancel_tasks', FIND, {'Assigned', 'Running'}, E_W_REM, 'must', {'C05', 'C08'}, 'reservation released on cancel'),
    ('on_cancel_tasks', FIND, {'RunningMultiNode'}, E_W_MN_RESET, 'may', {'C05', 'C08'}, 'mode may: performed inside a for-loop over the task workers'),
    ('on_cancel_tasks', FIND, {'Retracting'}, E_TRY_RM_REDIR, 'must', {'C05', 'C06', 'C08'}, 'redirect target reservation dropped on cancel'),
    ('on_cancel_tasks', FIND, {'Prefilled'}, E_QPF_REM, 'must', {'C08'}, 'canceled backlog task leaves the prefill set'),
    ('on_cancel_tasks', FIND, {'Prefilled'}, E_W_PF_REM, 'must', {'C05', 'C08'}, 'canceled backlog task leaves the worker backlog'),
    ('on_cancel_tasks', FIND, {'Waiting', 'Assigned', 'Running', 'RunningMultiNode', 'Retracting', 'Prefilled'}, E_DEL, 'must', {'C08', 'C02'}, 'canceled tasks are forgotten by the core'),
    # ---------------- process_retracted
    ('process_retracted', GET, {'Prefilled'}, E_W_PF_REM, 'must', {'C05', 'C06'}, 'a retracted task leaves the worker backlog bookkeeping'),
    ('process_retracted', GET, {'Prefilled'}, E_MSG, 'reach', {'C06'}, 'the worker is asked to give the task back (mode reach: the send sits in a second loop over the collected ids)'),
]


def run_rows(ctx, rule, prop):
    prog = ctx.prog
    n = 0
    for handler, roots, variants, eff, mode, props, reason in ROWS:
        if prop not in props:
            continue
        body = prog.body(REACTOR + handler)
        scrut = pick_scrutinee(body, TRS, root_callees=roots, last_field='state')
        check_arm_effect(ctx, rule, body, TRS, variants, eff, mode, scrut, reason)
        n += 1
    return n
