"""C16 — allocation policies mean what the documentation says; no spurious refusals (structural clauses only)."""
from hqrules.core import FailClosed, callee_of, callee_decl, op_local, op_place, place_fields, norm, op_const
from hqrules.templates import (effect_blocks, must_pass, state_writes, variants_at, call_sites, construct_sites, Effect,
                               loop_headers_containing, owner_fn, scrutinees, guard_edges, dominated_by_edges,
                               local_field_sources, binops, operand_fields, field_write_sites, field_read_sites)
from .common import *

EXPLANATION = ('Minimality of the group count, maximal spread, single-index remainders and "granted whenever enough is free" are optimisation '
               'results over numbers and are not decided. Decided: (R16.1) the admission test and the grant build the coupled request list under '
               'the same predicate and call the same group solver on the same summary, and the grant is dominated by the admission test; '
               '(R16.2) the policy dispatch tables (is_forced, is_relevant_for_coupling, per-policy claim routine, `all` admission = full size); '
               '(R16.3) strict policies are measured against the optimum of the EMPTY worker and accepted with objective >= optimum - eps.')
NOT_DECIDED = ['minimal number of groups, maximal spread, no spurious refusal as optimisation results over numbers (objective coefficients of group_solver are not judged); of the single-index fractional remainder only the bookkeeping shape is decided (R04.9 granted once, R16.4 admission measures the largest single fraction, R04.7 index order)']
RELATED = {'C04': ['R04.3', 'R04.6', 'R04.7', 'R04.9', 'R04.12']}
ASSUMPTIONS = ['group_solver (MILP) is trusted']
W = T + 'worker::'
ALLOCATOR = W + 'resources::allocator::ResourceAllocator'
RA = ALLOCATOR + '::'
POOL = W + 'resources::pool::ResourcePool'
AR = T + 'common::resources::request::AllocationRequest'
GS = [W + 'resources::groups::group_solver']


def _coupling_push_guards(prog, fn):
    """for every push into the `coupling` SmallVec: (pool variant guard, is_relevant_for_coupling guard holds)"""
    out = []
    for p in prog.with_closures(fn):
        b = prog.bodies[p]
        for bi, t, c in b.calls():
            if bi in b.reachable() and c and c.endswith('SmallVec::push') and t['args']:
                l = op_local(t['args'][0])
                # the coupled-entry list: a SmallVec of &ResourceAllocRequest
                if not any('smallvec::SmallVec<[&' in b.locals[x][0] and 'ResourceAllocRequest' in b.locals[x][0] for x in b.derived_from(l)):
                    continue
                pv = variants_at(b, POOL, bi)
                e, calls = guard_edges(b, AR + '::is_relevant_for_coupling', True)
                rel = dominated_by_edges(b, bi, e) if e else False
                out.append((b, bi, pv, rel))
    return out


def admission_equals_grant(ctx, rule):
    prog = ctx.prog
    adm = RA + 'has_resources_for_request'
    gr = RA + 'claim_resources'
    prog.body(adm), prog.body(gr)
    for fn in (adm, gr):
        pushes = _coupling_push_guards(prog, fn)
        ctx.ob(rule, f'{fn.split("::")[-1]}|coupling list', len(pushes) == 1, f'{fn.split("::")[-1]} collects coupled entries at one site (observed {len(pushes)})', prog.body(fn).loc())
        for b, bi, pv, rel in pushes:
            ctx.ob(rule, f'{fn.split("::")[-1]}|coupled iff Groups pool and relevant policy', pv is not None and set(pv) == {'Groups'} and rel,
                   f'an entry is coupled exactly when its pool is Groups and the policy is_relevant_for_coupling() (observed pool guard {sorted(pv) if pv else pv}, relevant guard {rel})', b.loc(bi))
    # same solver, same inputs
    gcalls = {}
    for fn in (adm, gr):
        b = prog.body(fn)
        cs = [bi for bi in b.call_blocks(lambda c: c.endswith('groups::group_solver'))]
        gcalls[fn] = (b, cs)
        ctx.ob(rule, f'{fn.split("::")[-1]}|group_solver', bool(cs), f'{fn.split("::")[-1]} calls group_solver', b.loc(cs[0]) if cs else b.loc())
    b1, c1 = gcalls[adm]
    b2, c2 = gcalls[gr]
    if c1 and c2:
        def arg_names(b, bi, i):
            l = op_local(b.term[bi]['args'][i])
            return local_field_sources(b, l) - {None}
        # admission call on the current summary: its first argument derives from the `free` parameter (arg 2), not from static_info
        cur1 = [bi for bi in c1 if 2 in b1.derived_from(op_local(b1.term[bi]['args'][0])) and 'all_resources' not in arg_names(b1, bi, 0)]
        ctx.ob(rule, 'admission|solver on current free summary', bool(cur1), 'the admission test runs the solver on the current free summary', b1.loc(cur1[0]) if cur1 else b1.loc())
        cur2 = [bi for bi in c2 if 'free_resources' in arg_names(b2, bi, 0)]
        ctx.ob(rule, 'grant|solver on current free summary', bool(cur2), 'the grant runs the solver on the current free summary', b2.loc(cur2[0]) if cur2 else b2.loc())
        w1 = all('coupling_weights' in arg_names(b1, bi, 2) for bi in c1)
        w2 = all('coupling_weights' in arg_names(b2, bi, 2) for bi in c2)
        ctx.ob(rule, 'same weights', w1 and w2, 'both sides pass static_info.coupling_weights', b1.loc())
    tr = prog.body(RA + 'try_allocate')
    cl = tr.call_blocks(gr)
    e, _ = guard_edges(tr, adm, True)
    ctx.ob(rule, 'try_allocate|grant only after admission', bool(cl) and dominated_by_edges(tr, cl[0], e, False), 'claim_resources is dominated by has_resources_for_request() == true', tr.loc(cl[0]) if cl else tr.loc())
    ie = prog.body(RA + 'is_enabled')
    ctx.ob(rule, 'is_enabled|same admission function', bool(ie.call_blocks(adm)), 'is_enabled (used to un-block requests) is the same admission test', ie.loc())
    # same arguments in both callers
    for b in (tr, ie):
        bi = b.call_blocks(adm)
        if bi:
            t = b.term[bi[0]]
            fs = [local_field_sources(b, op_local(a)) for a in t['args']]
            ok = 'pools' in fs[0] and 'free_resources' in fs[1] and 'static_info' in fs[3]
            ctx.ob(rule, f'{b.path.split("::")[-1]}|admission arguments', ok, 'admission is evaluated on self.pools, self.free_resources, self.static_info', b.loc(bi[0]))


def run(ctx):
    prog = ctx.prog
    ctx.rule('R16.1', 'admission and grant agree (same coupling predicate, same solver inputs, grant dominated by admission)')
    ctx.rule('R16.2', 'policy dispatch tables are the documented ones')
    ctx.rule('R16.3', 'strict policies are compared with the optimum of the empty worker: objective >= optimum - eps')
    admission_equals_grant(ctx, 'R16.1')

    # ---- R16.2
    pt = prog.predicate_table(AR + '::is_forced')
    ctx.ob('R16.2', 'is_forced', pt is not None and set(pt['true']) == {'ForceCompact', 'ForceTight'}, f'is_forced == {{ForceCompact, ForceTight}} (observed {sorted(pt["true"]) if pt else None})', prog.body(AR + '::is_forced').loc())
    pt = prog.predicate_table(AR + '::is_relevant_for_coupling')
    ctx.ob('R16.2', 'is_relevant_for_coupling', pt is not None and set(pt['true']) == {'Compact', 'ForceCompact', 'Tight', 'ForceTight'}, f'is_relevant_for_coupling == the four compact/tight variants (observed {sorted(pt["true"]) if pt else None})', prog.body(AR + '::is_relevant_for_coupling').loc())
    gm = prog.body(POOL + '::claim_resources_with_group_mask')
    disp = {}
    for name in ('claim_scatter_from_groups', 'claim_compact_from_groups', 'claim_all_from_groups'):
        for bi in gm.call_blocks(POOL + '::' + name):
            for v in (variants_at(gm, AR, bi) or []):
                disp.setdefault(v, set()).add(name)
    exp = {'Compact': {'claim_scatter_from_groups'}, 'ForceCompact': {'claim_scatter_from_groups'}, 'Tight': {'claim_compact_from_groups'}, 'ForceTight': {'claim_compact_from_groups'}}
    ctx.ob('R16.2', 'claim_resources_with_group_mask|dispatch', disp == exp, f'Compact|ForceCompact spread evenly inside the chosen groups, Tight|ForceTight pack (observed {disp})', gm.loc())
    for bi in gm.call_blocks(lambda c: c.startswith(POOL + '::claim_')):
        t = gm.term[bi]
        # the group mask is passed (Some(group_set))
        l = op_local(t['args'][2]) if len(t['args']) > 2 else None
        sd = gm.single_def(l) if l is not None else None
        ok = bool(sd and sd[1] == 'a' and sd[2]['rv'][0] == 'agg' and sd[2]['rv'][1][2] == 'Some')
        ctx.ob('R16.2', f'claim_resources_with_group_mask|mask passed|{callee_of(t).split("::")[-1]}', ok, 'the groups chosen by the solver restrict the claim', gm.loc(bi))
    cr = prog.body(POOL + '::claim_resources')
    disp = {}
    for name in ('claim_scatter_from_groups', 'claim_compact_from_groups', 'claim_all_from_groups'):
        for bi in cr.call_blocks(POOL + '::' + name):
            pv = variants_at(cr, POOL, bi)
            if pv and set(pv) == {'Groups'}:
                for v in (variants_at(cr, AR, bi) or []):
                    disp.setdefault(v, set()).add(name)
    ctx.ob('R16.2', 'claim_resources|Groups dispatch', disp == {'Scatter': {'claim_scatter_from_groups'}, 'All': {'claim_all_from_groups'}}, f'on a grouped pool Scatter scatters over all groups and All claims everything (observed {disp})', cr.loc())
    # `all` admission: max_alloc == full_size
    adm = [prog.bodies[p] for p in prog.with_closures(RA + 'has_resources_for_request')]
    okall, okle = False, False
    RAM = 'ResourceAmount'

    def _from_call(b_, a_, suffix):
        l_ = op_local(a_)
        if l_ is None:
            return False
        return any(d_[1] == 'call' and (callee_of(d_[2]) or '').endswith(suffix) for x_ in b_.derived_from(l_, through_mutation=False) for d_ in b_.defs().get(x_, ()))

    def _is_amount(b_, a_):
        l_ = op_local(a_)
        return l_ is not None and b_.locals[l_][0].replace('&', '').strip().endswith(RAM)
    for b in adm:
        for bi, t, c in b.calls():
            if bi not in b.reachable():
                continue
            dc = callee_decl(t) or ''
            vs = variants_at(b, AR, bi)
            # whole-value comparisons of ResourceAmount (units AND fractions), not of a projection such as whole units
            if dc.endswith('PartialEq::eq') and vs and set(vs) == {'All'} and all(_is_amount(b, a) for a in t['args']) and \
                    any(_from_call(b, a, '::amount_max_alloc') for a in t['args']) and any(_from_call(b, a, '::full_size') for a in t['args']):
                okall = True
            if dc.endswith('PartialOrd::le') and vs and 'All' not in vs and len(vs) < 6 and all(_is_amount(b, a) for a in t['args']) and \
                    _from_call(b, t['args'][1], '::amount_max_alloc') and not _from_call(b, t['args'][0], '::amount_max_alloc'):
                okle = True
    ctx.ob('R16.2', 'admission|All requires the full resource', okall, '`all` is admitted only when the maximal allocatable amount equals the full size as whole ResourceAmount values (units and fractions; a comparison of whole units admits `all` next to a fractional allocation)', adm[0].loc())
    ctx.ob('R16.2', 'admission|amount <= max_alloc', okle, 'the other policies are admitted when amount <= max allocatable, compared as whole ResourceAmount values', adm[0].loc())

    # ---- R16.4 the admission measure
    ctx.rule('R16.4', 'amount_max_alloc (what admission compares a request with): whole units are summed over the groups, the fractional part is the largest single free fraction (a fraction has to come from one index; adding up fractions of different indices admits requests no grant can satisfy)')
    CONC_ = T + 'worker::resources::concise::ConciseResourceState::'
    ama = prog.body(CONC_ + 'amount_max_alloc')
    newc = ama.call_blocks(lambda c: c.endswith('ResourceAmount::new'))
    ctx.ob('R16.4', 'amount_max_alloc|built from (units, fraction)', len(newc) == 1, 'amount_max_alloc builds one ResourceAmount from a unit count and a fraction', ama.loc(newc[0]) if newc else ama.loc())
    if len(newc) == 1:
        ua, fa_ = [op_local(a) for a in ama.term[newc[0]]['args'][:2]]
        def _calls_feeding(l_):
            return {(callee_decl(d_[2]) or callee_of(d_[2]) or '') for x_ in ama.derived_from(l_, through_mutation=False) for d_ in ama.defs().get(x_, ()) if d_[1] == 'call'} if l_ is not None else set()
        fu, ff = _calls_feeding(ua), _calls_feeding(fa_)
        ctx.ob('R16.4', 'amount_max_alloc|units summed', any(c.endswith('Iterator::sum') for c in fu), 'the unit part is a sum over the groups', ama.loc(newc[0]))
        ctx.ob('R16.4', 'amount_max_alloc|fraction is a maximum, not a sum', any(c.endswith('Iterator::max') for c in ff) and not any(c.endswith(('Iterator::sum', 'Sum::sum', 'Add::add')) for c in ff),
               'the fractional part is Iterator::max over the free fractions of all indices', ama.loc(newc[0]))

    # ---- R16.3
    b = prog.body(RA + 'has_resources_for_request')
    cs = b.call_blocks(lambda c: c.endswith('groups::group_solver'))
    opt = [bi for bi in cs if 'all_resources' in local_field_sources(b, op_local(b.term[bi]['args'][0]))]
    ctx.ob('R16.3', 'optimum from the empty worker', len(opt) == 1, 'the cached optimum is computed by group_solver on static_info.all_resources (the initial summary)', b.loc(opt[0]) if opt else b.loc())
    ge = [(bi, s) for bi, s, op, a, c in binops(b) if op in ('Ge',)]
    ok = False
    for bi, s, in ge:
        ok = True
    ctx.ob('R16.3', 'objective >= optimum', bool(ge), 'the request is admitted when objective >= cached optimum (observed comparison operators: ' + ','.join(sorted({op for bi, s, op, a, c in binops(b) if op in ("Ge", "Gt", "Le", "Lt", "Eq")})) + ')', b.loc(ge[0][0], ge[0][1]) if ge else b.loc())
    sub = [1 for bi, s, op, a, c in binops(b) if op.startswith('Sub') and c[0] == 'k']
    ctx.ob('R16.3', 'epsilon', bool(sub), 'an epsilon is subtracted from the optimum before it is cached', b.loc())
    # strictness must be decided over ALL coupled entries: Iterator::all/any over `coupling` with an is_forced closure,
    # or an or-accumulated flag (a plain assignment inside the per-entry closure keeps only the last entry's answer)
    aa = []
    for bi, t, c in b.calls():
        if bi in b.reachable() and (callee_decl(t) or '').endswith(('Iterator::all', 'Iterator::any')):
            names = {'coupling' for x in b.derived_from(op_local(t['args'][0])) if 'smallvec::SmallVec<[&' in b.locals[x][0] and 'ResourceAllocRequest' in b.locals[x][0]}
            cl = [norm(d[2]['rv'][1][1]) for a in t['args'][1:] if op_local(a) is not None for x in b.derived_from(op_local(a)) for d in b.defs().get(x, ())
                  if d[1] == 'a' and d[2]['rv'][0] == 'agg' and d[2]['rv'][1][0] == 'closure']
            if 'coupling' in names and any(prog.bodies[c_].call_blocks(AR + '::is_forced') for c_ in cl if c_ in prog.bodies):
                aa.append(bi)
    acc_or = False
    for p_ in prog.children(b.path):
        cb = prog.bodies[p_]
        if cb.call_blocks(AR + '::is_forced'):
            for bi, s_, op, a, c in binops(cb):
                if op == 'BitOr':
                    acc_or = True
    plain_flag = False
    for p_ in prog.children(b.path):
        cb = prog.bodies[p_]
        fc = cb.call_blocks(AR + '::is_forced')
        for x in fc:
            t = cb.term[x]
            # result written straight through an upvar reference
            if t['d'][1] and '*' in t['d'][1]:
                plain_flag = True
            dl = t['d'][0]
            for bi in cb.reachable():
                for s_ in cb.stmts(bi):
                    if s_['k'] == 'a' and s_['p'][1] and '*' in s_['p'][1] and s_['rv'][0] == 'use' and op_local(s_['rv'][1]) == dl:
                        plain_flag = True
    ctx.ob('R16.3', 'strictness decided over all coupled entries', (bool(aa) or acc_or) and not (plain_flag and not acc_or),
           'the decision to skip the optimum test is an all()/any() over the coupled entries (or an or-accumulated flag); a flag overwritten per entry lets a later non-strict entry hide a strict one', b.loc(aa[0]) if aa else b.loc())
    if aa:
        t = b.term[aa[0]]
        e_t, _ = guard_edges(b, callee_decl(t), True)
        gs = b.call_blocks(lambda c: c.endswith('groups::group_solver'))
        # on the edge where no entry is forced the function returns true without calling the solver
        ok = bool(e_t) and bool(gs)
        ctx.ob('R16.3', 'non-strict policies skip the optimum test', ok, 'when no coupled entry is forced the request is admitted without comparing with the optimum', b.loc(aa[0]))
