"""C09 — server and workers survive every message order and fault (no reachable panic)."""
import json
import os
from collections import deque, defaultdict
from hqrules.core import FailClosed, callee_of, callee_decl, op_local, op_place, place_fields, norm
from hqrules.templates import (diverging_blocks, bool_uses, effect_blocks, must_pass, state_writes, variants_at, call_sites, construct_sites, Effect,
                               check_arm_effect, pick_scrutinee, loop_headers_containing, owner_fn, scrutinees,
                               field_read_sites, local_field_sources, diverging_blocks, guard_edges, dominated_by_edges,
                               bodies_with_effect)
from .common import *
from . import reactor_table

EXPLANATION = ('Panic-freedom itself is not statically decidable here. Decided are four necessary conditions, each of which, if violated on '
               'a feasible input, is a reachable panic: (R09.1) ids taken from a worker message never reach a panicking lookup without a '
               'dominating existence check; (R09.2) for every (handler, state) pair that a correctly behaving peer can produce (table with '
               'witness schedules) the arm does not diverge; (R09.3) no RefCell guard is held across an await and event callbacks cannot '
               're-enter the server cell; (R09.4) jobs are removed only when terminated.')
NOT_DECIDED = ['panic-freedom as a whole (depends on which message can arrive in which state); new assertion sites are inventoried, not judged']
RELATED = {'C02': ['R02.7']}
ASSUMPTIONS = ['feasible-pairs table (tables/feasible_pairs.json) is the trusted protocol knowledge: only pairs with a witness schedule are listed',
               'per-connection FIFO']

OPTION = 'core::option::Option'
PANICKING_LOOKUPS = {TASKMAP + 'get_task', TASKMAP + 'get_task_mut', CORE + 'get_task', CORE + 'get_task_mut'}
FINDERS = {TASKMAP + 'find_task', TASKMAP + 'find_task_mut', CORE + 'find_task', CORE + 'find_task_mut'}
REMOVERS = {CORE + 'remove_task', CORE + 'remove_tasks_batched', TASKMAP + 'remove'}
WRAPPED = T + 'common::wrapped::WrappedRcRefCell::'


def tainted_locals(body, srcs, unsanitized_block):
    """Forward taint over the flow graph; an edge that exists only because a call mutates a local container
    (push/insert into it) is followed only if that call block is not itself sanitised."""
    g = body.flow_graph()
    rev = defaultdict(set)
    for d, ss in g.items():
        for s in ss:
            rev[s].add(d)
    seen = set(srcs)
    dq = deque(srcs)
    while dq:
        x = dq.popleft()
        for y in rev.get(x, ()):
            if y in seen:
                continue
            me = body._mut_edges.get((y, x))
            if me is not None and not any(unsanitized_block(b) for b in me):
                # only via mutating calls that are all sanitised
                # (is there also a plain def edge? plain edges are not in _mut_edges-only form)
                plain = _has_plain_edge(body, y, x)
                if not plain:
                    continue
            seen.add(y)
            dq.append(y)
    return seen


def _has_plain_edge(body, d, s):
    for bi, kind, payload in body.defs().get(d, ()):  # noqa
        if kind in ('a', 'pw'):
            from hqrules.core import rv_places
            if any(pl[0] == s for pl in rv_places(payload['rv'])):
                return True
        elif kind in ('call', 'pwcall'):
            if any(op_local(a) == s for a in payload['args']):
                return True
    return False


def run(ctx):
    prog = ctx.prog
    ctx.rule('R09.1', 'ids taken from a worker message never reach TaskMap/Core::get_task{,_mut} unless a find_task* on the same id dominates the lookup through its Some edge with no removal in between')
    ctx.rule('R09.2', 'handler x state totality: an arm for a feasible (handler, old state) pair must not diverge')
    ctx.rule('R09.3', 'no RefCell guard (WrappedRcRefCell::get/get_mut) is live across an await; HQ event callbacks never re-enter ServerRef / Comm')
    ctx.rule('R09.4', 'State.jobs entries are removed only by forget_job, which checks is_terminated')

    # ---- R09.1
    handlers = {
        REACTOR + 'task_running': [4], REACTOR + 'task_finished': [4], REACTOR + 'task_failed': [4],
        REACTOR + 'task_reject': [4], REACTOR + 'on_retract_response': [4],
    }
    nsinks = 0
    for hp, params in handlers.items():
        b = prog.body(hp)
        # Some-edges of finders, keyed by the finder block
        some_regions = {}
        for k, d in scrutinees(b, OPTION).items():
            if d['root_callee'] in FINDERS:
                sd = b.single_def(d['root'])
                fb = sd[0]
                entries, region = b.arm_entries(OPTION, {'Some'}, k)
                some_regions[fb] = (region, b.term[fb])
        removers = set(b.call_blocks(REMOVERS))

        def sanitised(sink_block, key_srcs):
            for fb, (region, ft) in some_regions.items():
                kl = op_local(ft['args'][1]) if len(ft['args']) > 1 else None
                if kl is None:
                    continue
                if not (b.derived_from(kl) & key_srcs):
                    continue
                if sink_block in region:
                    # no removal between finder and sink
                    between = b.reach_after(fb) & b.coreach([sink_block])
                    if not (between & removers - {sink_block}):
                        return True
            return False

        sinks = [(bi, t) for bi, t, c in b.calls() if c in PANICKING_LOOKUPS and bi in b.reachable()]

        def unsan(block):
            return True   # container inserts inside these handlers are keyed by ids that were looked up before; decided per sink below
        # taint sources: payload params
        srcs = set(params)
        # pass 1: which container-mutating calls are sanitised (their block lies in a Some region of a finder on the tainted source)
        def unsanitized_block(block):
            return not sanitised(block, tainted_basic)
        tainted_basic = tainted_locals(b, srcs, lambda blk: False)   # without container edges
        tainted = tainted_locals(b, srcs, unsanitized_block)
        for bi, t in sinks:
            kl = op_local(t['args'][1]) if len(t['args']) > 1 else None
            if kl is None or kl not in tainted:
                continue
            nsinks += 1
            ok = sanitised(bi, b.derived_from(kl) & tainted)
            via = 'direct' if kl in tainted_basic else 'via-container'
            ctx.ob('R09.1', f'{hp.split("::")[-1]}|{callee_of(t).split("::")[-1]}|{via}', ok,
                   f'{hp.split("::")[-1]}: a peer-supplied task id reaches the panicking {callee_of(t).split("::")[-1]}; it must be dominated by the Some edge of a find_task* on the same id',
                   b.loc(bi))
    ctx.floor('R09.1', nsinks, 1, 'panicking lookups keyed by peer-supplied ids')

    # ---- R09.2
    with open(os.path.join(os.path.dirname(__file__), '..', '..', 'tables', 'feasible_pairs.json')) as f:
        table = json.load(f)['pairs']
    npairs = 0
    for row in table:
        b = prog.body(row['handler'])
        enum = row.get('enum', TRS)
        sel = row['select']
        if sel == 'find':
            keys = [pick_scrutinee(b, enum, root_callees=reactor_table.FIND, last_field='state')]
        elif sel == 'get':
            keys = [pick_scrutinee(b, enum, root_callees=reactor_table.GET, last_field='state')]
        else:
            keys = [k for k, d in scrutinees(b, enum).items() if k.endswith('.state')]
            ctx.require(keys, f'R09.2: no state scrutinee in {row["handler"]}')
        cr = b.can_return()
        for v, witness in row['states'].items():
            npairs += 1
            div = True
            found = False
            for k in keys:
                entries, region = b.arm_entries(enum, {v}, k)
                if not region:
                    # the variant is not distinguished: handled together with others unless every region containing it diverges
                    st = b.variant_flow(enum).get(k, {})
                    blocks = [bb for bb, vs in st.items() if v in vs]
                    if any(bb in cr for bb in blocks if bb != 0) :
                        found = True
                        div = not any(_variant_can_return(b, enum, k, v))
                    continue
                found = True
                if any(e in cr for e in entries):
                    div = False
            ctx.require(found, f'R09.2: {row["handler"]} never observes {v}')
            ctx.ob('R09.2', f'{row["handler"].split("::")[-1]}|{v}', not div,
                   f'{row["handler"].split("::")[-1]} x {v} is feasible ({witness}); its arm must not diverge', b.loc())
    ctx.floor('R09.2', npairs, 30, 'feasible pairs')

    # ---- R09.3 (a) guards across await
    getters = {WRAPPED + 'get', WRAPPED + 'get_mut'}
    ncor, nguards = 0, 0
    for p, b in prog.bodies.items():
        if b.kind != 'coroutine' or is_test_util(p) or not (p.startswith('hyperqueue::server') or p.startswith('tako::internal::server') or p.startswith('tako::internal::worker') or p.startswith('hyperqueue::worker')):
            continue
        ys = set(b.yields())
        if not ys:
            continue
        ncor += 1
        for bi, t, c in b.calls():
            if bi not in b.reachable():
                continue
            l, proj = t['d']
            ty = b.locals[l][0]
            if proj or not (ty.startswith('core::cell::RefMut<') or ty.startswith('core::cell::Ref<')):
                continue
            nguards += 1
            # the guard may be moved into other locals (`state = move _tmp`, `drop(move state)`): follow move chains
            alias = {l}
            grew = True
            while grew:
                grew = False
                for x in b.reachable():
                    for st in b.stmts(x):
                        if st['k'] == 'a' and not st['p'][1] and st['rv'][0] == 'use' and st['rv'][1][0] == 'm' \
                                and st['rv'][1][1][1] == [] and st['rv'][1][1][0] in alias and st['p'][0] not in alias:
                            alias.add(st['p'][0])
                            grew = True
            drops = [x for x in b.reachable() if b.term[x] and b.term[x]['k'] == 'drop' and b.term[x]['p'][1] == [] and b.term[x]['p'][0] in alias]
            # moved-out guards (passed by value, e.g. drop(guard)) end their life at the move
            movers = [x for x, tt, cc in b.calls() if x in b.reachable() and any(a[0] == 'm' and a[1][1] == [] and a[1][0] in alias for a in tt['args'])]
            live = b.reach_after(bi, avoid=set(drops) | set(movers))
            bad = sorted(y for y in ys if y in live and y not in drops)
            ctx.ob('R09.3', f'{owner_fn(prog, p).split("::")[-1]}|guard of {ty[:60]}|no await', not bad,
                   f'a {ty.split("<")[0].split("::")[-1]} guard created in {p} is not live across an await (another handler would find the cell borrowed)',
                   b.loc(bad[0]) if bad else b.loc(bi), dict(created=b.loc(bi)))
    ctx.floor('R09.3', nguards, 10, 'RefCell guards created in server/worker coroutines')
    ctx.note('coroutines_with_awaits', ncor)
    # (b) event callbacks never re-enter
    reenter = Effect('reenter', callees={'tako::control::ServerRef::cancel_tasks', 'tako::control::ServerRef::add_new_tasks',
                                         'tako::control::ServerRef::stop_worker', 'tako::control::ServerRef::new_resource_rq_id',
                                         COMM + 'client', COMM + 'send_worker_message'})
    has = bodies_with_effect(prog, reenter)
    ncb = 0
    for ti, impls in prog.trait_impls.items():
        if not ti.startswith(EVP):
            continue
        for ii in impls:
            if is_test_util(ii):
                continue
            ncb += 1
            ctx.ob('R09.3', f'{ii.split("::")[-1]}|no re-entry', ii not in has,
                   f'{ii} (called with core and comm mutably borrowed) cannot reach ServerRef::* / Comm::*', prog.bodies[ii].loc())
    ctx.floor('R09.3', ncb, 4, 'EventProcessor callbacks')

    # ---- R09.4
    STATE = HQ + 'state::State'
    rem = []
    for p, b in prog.bodies.items():
        if not p.startswith('hyperqueue::') or is_test_util(p):
            continue
        for bi, t, c in b.calls():
            if bi in b.reachable() and c in (HASH_REMOVE | {'std::collections::BTreeMap::remove', 'alloc::collections::btree::map::BTreeMap::remove'}) and t['args']:
                l = op_local(t['args'][0])
                if l is not None and 'jobs' in local_field_sources(b, l):
                    # make sure it is State.jobs
                    for x in b.derived_from(l):
                        for bj, kind, payload in b.defs().get(x, ()):
                            if kind == 'a':
                                from hqrules.core import rv_places
                                for pl in rv_places(payload['rv']):
                                    if any(n == 'jobs' and a == STATE for n, a, v in place_fields(pl)):
                                        rem.append((owner_fn(prog, p), b, bi))
    rem = list({(o, b.path, bi): (o, b, bi) for o, b, bi in rem}.values())
    ctx.floor('R09.4', len(rem), 1, 'State.jobs.remove sites')
    fj = prog.body(HQ + 'state::State::forget_job')
    for o, b, bi in rem:
        ctx.ob('R09.4', f'jobs.remove|{o.split("::")[-1]}', o == fj.path, 'State.jobs entries removed only by forget_job', b.loc(bi))
    chk = fj.call_blocks(JOB + 'is_terminated')
    ctx.ob('R09.4', 'forget_job|checks is_terminated', bool(chk), 'forget_job consults Job::is_terminated before removing', fj.loc())

    # caller guard <-> callee assertion agreement: forget_job asserts is_terminated, so every caller must have tested exactly that
    ctx.rule('R09.5', 'guard/assertion agreement: callers of State::forget_job test Job::is_terminated (the predicate forget_job asserts); every registered worker is announced to a newcomer (LostWorker is broadcast for every registered worker and the worker asserts it knows the id)')
    asserted = bool(fj.call_blocks(JOB + 'is_terminated'))
    for o, b, bi in call_sites(prog, fj.path):
        if is_test_util(o):
            continue
        ob_ = prog.bodies[o]
        nested = [prog.bodies[p] for p in prog.with_closures(o)]
        tests = [x for x in nested if x.call_blocks(JOB + 'is_terminated')]
        # the forget_job call is guarded by a bool that derives from the closure(s) testing is_terminated
        ok = False
        from hqrules.templates import bool_uses
        for x in tests:
            for y in range(len(b.locals)):
                if b.locals[y][0] == 'bool':
                    srcs = b.derived_from(y)
                    for z in srcs:
                        for d in b.defs().get(z, ()):
                            if d[1] == 'a' and d[2]['rv'][0] == 'agg' and d[2]['rv'][1][0] == 'closure' and norm(d[2]['rv'][1][1]) == x.path:
                                te = set((sb, ts) for sb, ts, fs in bool_uses(b, y))
                                if te and dominated_by_edges(b, bi, te):
                                    ok = True
            if x.path == b.path:
                e, _ = guard_edges(b, JOB + 'is_terminated', True)
                if e and dominated_by_edges(b, bi, e):
                    ok = True
        ctx.ob('R09.5', f'{o.split("::")[-1]}|forget_job guarded by Job::is_terminated', ok and asserted,
               'forget_job asserts job.is_terminated(); its caller must have tested the same predicate (a different notion of "terminated" makes a plain client request panic the server)', b.loc(bi))
    wrl = [prog.bodies[p] for p in prog.with_closures(T + 'server::rpc::worker_rpc_loop')]
    NWM = T + 'messages::worker::NewWorkerMsg'
    nsite = 0
    for b in wrl:
        for o, bb, bi, s in construct_sites(prog, NWM):
            if bb.path != b.path or b.kind != 'closure':
                continue
            nsite += 1
            # guards dominating the construction: bool switches whose condition derives from a call
            bad = []
            for x in b.reachable():
                si = b.switch_info(x)
                if not si or si['kind'] != 'bool' or not b.dominates(x, bi):
                    continue
                for y in b.derived_from(si['local']):
                    for d in b.defs().get(y, ()):
                        if d[1] == 'call':
                            c = callee_decl(d[2]) or ''
                            if not c.endswith(('PartialEq::ne', 'PartialEq::eq')):
                                bad.append(c)
            ctx.ob('R09.5', 'worker_rpc_loop|other_workers excludes only the newcomer', not bad,
                   f'the initial worker list sent to a new worker is filtered by identity only (extra filters: {sorted(set(x.split("::")[-1] for x in bad))}); on_remove_worker broadcasts LostWorker for every registered worker and WorkerState::remove_worker asserts the id is known', b.loc(bi))
    ctx.floor('R09.5', nsite, 1, 'NewWorkerMsg construction in the other_workers closure')

    ctx.rule('R09.8', 'indices handed to a peer stay valid: the ComputeTasks builder clears its configuration index with the shared data; event-listener ids are unique among live listeners')
    from . import shared_rules
    shared_rules.compute_builder_index_reset(ctx, 'R09.8')
    shared_rules.listener_ids_unique(ctx, 'R09.8')
    # ---- R09.9 prefill-set typestate inside one handler
    ctx.rule('R09.9', 'prefill-set typestate: an operation that unwraps the prefill set of a queue (move_prefilled_task_to_ready / remove_prefilled) is not reachable after add_ready_task in the same handler (add_ready_task may dispose every prefill set of lower priority)')
    nops = 0
    for hname in ('on_remove_worker', 'task_reject', 'task_failed', 'task_finished', 'on_cancel_tasks', 'task_running', 'on_retract_response'):
        hb_ = prog.body(REACTOR + hname)
        qadd = set(x for x in effect_blocks(prog, hb_, E_Q_ADD))
        from hqrules.templates import _direct_effect_blocks
        ops = sorted(set(_direct_effect_blocks(hb_, E_QPF2Q)) | set(_direct_effect_blocks(hb_, E_QPF_REM)))   # direct calls only: keyed by tasks this handler observed as Prefilled
        if not ops:
            continue
        after = set()
        for x in qadd:
            after |= hb_.reach_after(x)
        for x in ops:
            nops += 1
            ctx.ob('R09.9', f'{hname}|{callee_of(hb_.term[x]).split("::")[-1]} not after add_ready_task', x not in after,
                   f'{hname}: {callee_of(hb_.term[x]).split("::")[-1]} unwraps TaskQueue.prefill; it must not run after add_ready_task, which disposes prefill sets of lower priority (lost worker with a high-priority assigned and a low-priority prefilled task)', hb_.loc(x))
    ctx.floor('R09.9', nops, 3, 'prefill-set operations in reactor handlers')
    # ---- R09.10
    ctx.rule('R09.10', 'no task keeps naming a removed worker: on_remove_worker finds the tasks being retracted from the lost worker by a scan of the whole task map')
    shared_rules.retracting_scan_whole_map(ctx, 'R09.10')
    # ---- R09.11 container typestate: what can sit in Worker.assigned_tasks vs what its consumers assume
    ctx.rule('R09.11', 'members of a worker\'s assigned_tasks set can be in every state written next to an insert_sn_task (Assigned, and Retracting for a redirected task) or reached from there without leaving the set (Running); a consumer that iterates the set and unwraps a state-partial accessor (Task::rv_id) must be total over those states')
    # the code base states its own belief about the members: Worker::sanity_check walks assigned_tasks and accepts exactly
    # the states whose arm does not panic
    wsc = prog.body(WORKER + 'sanity_check')
    member = set()
    for nb_, t_, c_ in wsc.calls():
        if nb_ in wsc.reachable() and (callee_decl(t_) or c_ or '').endswith('Iterator::next') and 'assigned_tasks' in local_field_sources(wsc, op_local(t_['args'][0]), through_mutation=False):
            hs_ = loop_headers_containing(wsc, nb_)
            if not hs_:
                continue
            for k_ in wsc.variant_flow(TRS):
                for v_ in prog.variants(TRS):
                    ent_, reg_ = wsc.arm_entries(TRS, {v_}, k_)
                    if ent_ and any(hs_[0] in loop_headers_containing(wsc, e_) for e_ in ent_) and hs_[0] in wsc.reach_from(ent_):
                        member.add(v_)
    ctx.note('assigned_tasks_member_states', sorted(member))
    ctx.ob('R09.11', 'assigned_tasks|member states stated by sanity_check', member == {'Assigned', 'Retracting', 'Running'},
           f'states Worker::sanity_check accepts for a member of assigned_tasks: {sorted(member)}', wsc.loc())
    # ... and Retracting members really arise: create_task_mapping inserts the task into the new target before it looks at
    # its state, and its Retracting / Prefilled arms leave it (or put it) in Retracting
    ctm_ = prog.body(T + 'scheduler::mapping::create_task_mapping')
    ins_ = effect_blocks(prog, ctm_, E_W_INS)
    retr_ = [bi_ for o_, b_, bi_, s_ in construct_sites(prog, TRS, 'Retracting') if b_.path == ctm_.path]
    keeps_ = False
    for k_ in ctm_.variant_flow(TRS):
        ent_, reg_ = ctm_.arm_entries(TRS, {'Retracting'}, k_)
        if reg_ and any(x in ctm_.reach_after(i_) for x in reg_ for i_ in ins_) and not any(b2 in reg_ for o_, b_, b2, s_ in construct_sites(prog, TRS, 'Assigned') if b_.path == ctm_.path):
            keeps_ = True
    ctx.ob('R09.11', 'create_task_mapping|redirected task is a Retracting member of its target', bool(ins_) and (keeps_ or any(x in ctm_.reach_after(i_) for x in retr_ for i_ in ins_)),
           'create_task_mapping reserves the task on the new worker (insert_sn_task) and leaves / puts it in state Retracting until the source worker answers', ctm_.loc(sorted(ins_)[0]) if ins_ else ctm_.loc())
    # state-partial accessors of Task that return Option
    rvb = prog.body(TASK + '::rv_id')
    some_v = set()
    for o_, b_, bi_, s_ in construct_sites(prog, 'core::option::Option', 'Some'):
        if b_.path == rvb.path:
            some_v |= set(variants_at(rvb, TRS, bi_) or prog.variants(TRS))
    ctx.ob('R09.11', 'Task::rv_id|defined on', some_v == {'Assigned', 'Running'}, f'rv_id() is Some exactly for {sorted(some_v)}', rvb.loc())
    UNW_ = ('Option::unwrap', 'Option::expect')
    ncons = 0
    for p_, b_ in prog.bodies.items():
        if not p_.startswith(T) or is_test_util(p_) or '::tests::' in p_:
            continue
        rvc = b_.call_blocks(TASK + '::rv_id')
        for rb_ in rvc:
            dl_ = b_.term[rb_]['d'][0]
            unw = [x for x, t_, c_ in b_.calls() if x in b_.reachable() and (c_ or '').endswith(UNW_) and op_local(t_['args'][0]) is not None and dl_ in b_.derived_from(op_local(t_['args'][0]), through_mutation=False)]
            if not unw:
                continue
            # does the task come from iterating assigned_tasks?  (the body itself, or the parent statement that feeds this closure to an adapter)
            from_set = any('assigned_tasks' in local_field_sources(b_, l_, through_mutation=False) for l_ in range(1, len(b_.locals)) if 'TaskId' in b_.locals[l_][0])
            if not from_set and b_.parent and b_.parent in prog.bodies:
                pb_ = prog.bodies[b_.parent]
                for x in pb_.reachable():
                    for st_ in pb_.stmts(x):
                        if st_['k'] == 'a' and st_['rv'][0] == 'agg' and st_['rv'][1][0] == 'closure' and norm(st_['rv'][1][1]) == b_.path:
                            cl_ = st_['p'][0]
                            for y, t2, c2 in pb_.calls():
                                if y in pb_.reachable() and any(op_local(a) is not None and cl_ in pb_.derived_from(op_local(a), through_mutation=False) for a in t2['args']):
                                    if any(op_local(a) is not None and 'assigned_tasks' in local_field_sources(pb_, op_local(a), through_mutation=False) for a in t2['args']):
                                        from_set = True
            if not from_set:
                continue
            ncons += 1
            ctx.ob('R09.11', f'{owner_fn(prog, p_).split("::")[-1]}|assigned_tasks member -> rv_id().unwrap()', member <= some_v,
                   f'a task taken from assigned_tasks may be in {sorted(member - some_v)} (a prefilled task redirected to this worker stays Retracting until the source answers), where rv_id() is None: the unwrap panics in the scheduler', b_.loc(unw[0]))
    ctx.note('assigned_tasks_unwrapping_consumers', ncons)

    # ---- R09.12 hypothetical (query) workers never key a panicking lookup into the registries of real workers
    ctx.rule('R09.12', 'functions that accept `custom_workers` (the fake workers of a new-worker query) must not use a value derived from them as the key of a panicking lookup into a Core registry (worker_groups.get(..).unwrap(), WorkerMap::get_worker): fake workers and their groups are registered nowhere')
    GETS = ('HashMap::get', 'HashMap::get_mut', 'BTreeMap::get', 'BTreeMap::get_mut')
    UNW2 = ('Option::unwrap', 'Option::expect')
    nfun = 0
    for p_, b_ in prog.bodies.items():
        if not p_.startswith(T + 'scheduler::') or is_test_util(p_) or '::tests::' in p_ or b_.kind not in ('fn', 'method'):
            continue
        params = [l_ for l_ in range(1, b_.argc + 1) if 'Option<&[tako::internal::server::worker::Worker]>' in b_.locals[l_][0].replace("'_ ", '')]
        if not params:
            continue
        nfun += 1
        P_ = set(params)
        bad = []
        for bi_, t_, c_ in b_.calls():
            if bi_ not in b_.reachable():
                continue
            if (c_ or '').endswith(UNW2):
                l_ = op_local(t_['args'][0])
                if l_ is None:
                    continue
                for x_ in b_.derived_from(l_, through_mutation=False):
                    for d_ in b_.defs().get(x_, ()):
                        if d_[1] == 'call' and (callee_of(d_[2]) or '').endswith(GETS) and len(d_[2]['args']) > 1:
                            k_ = op_local(d_[2]['args'][1])
                            recv_ = op_local(d_[2]['args'][0])
                            if k_ is not None and P_ & b_.derived_from(k_, through_mutation=False) and not (recv_ is not None and P_ & b_.derived_from(recv_, through_mutation=False)):
                                bad.append((bi_, 'unwrap of a registry lookup'))
            if (c_ or '') in (WORKERMAP + 'get_worker', WORKERMAP + 'get_worker_mut'):
                k_ = op_local(t_['args'][1]) if len(t_['args']) > 1 else None
                if k_ is not None and P_ & b_.derived_from(k_, through_mutation=False):
                    bad.append((bi_, 'WorkerMap::get_worker'))
        ctx.ob('R09.12', f'{p_.split("::")[-1]}|custom workers do not key a panicking registry lookup', not bad,
               f'{p_.split("::")[-1]}: a key derived from `custom_workers` reaches {bad[0][1] if bad else "no panicking lookup"} (a new-worker query with a waiting multi-node task and free real workers that cannot host it panics the server on every autoalloc tick)', b_.loc(bad[0][0]) if bad else b_.loc())
    ctx.floor('R09.12', nfun, 2, 'scheduler functions taking custom_workers')

    # ---- R09.13 a channel whose other end lives in another task may be closed: its send result must not be asserted
    ctx.rule('R09.13', 'sends on a oneshot / mpsc channel whose receiver is owned by a different future (task stop requests, callbacks) tolerate a closed channel: in the worker and server runtime no send result is unwrapped or asserted (the launcher future drops its stop receiver when the process has ended, while the task is still registered until its output is flushed)')
    SENDS = ('oneshot::Sender::send', 'mpsc::unbounded::UnboundedSender::send', 'mpsc::bounded::Sender::try_send')
    UNW3 = ('Result::unwrap', 'Result::expect')
    nsend = 0
    for p_, b_ in prog.bodies.items():
        if not p_.startswith((T + 'worker::', T + 'server::', 'hyperqueue::server::', 'hyperqueue::worker::', 'hyperqueue::stream::')) or is_test_util(p_) or '::tests::' in p_ or '::_::' in p_ or 'test_util' in p_:
            continue
        div_ = None
        for bi_, t_, c_ in b_.calls():
            if bi_ not in b_.reachable() or not (c_ or '').endswith(SENDS):
                continue
            if not (c_ or '').endswith('oneshot::Sender::send'):
                continue      # mpsc senders to the own comm loop are inventoried by R09.3 / not judged here
            nsend += 1
            dl_ = b_.term[bi_]['d'][0]
            bad = None
            for x_, t2_, c2_ in b_.calls():
                if x_ not in b_.reachable() or op_local(t2_['args'][0]) if t2_['args'] else None is None:
                    pass
                if x_ in b_.reachable() and t2_['args'] and op_local(t2_['args'][0]) is not None and dl_ in b_.derived_from(op_local(t2_['args'][0]), through_mutation=False):
                    if (c2_ or '').endswith(UNW3):
                        bad = (x_, 'unwrap/expect of the send result')
                    if (c2_ or '').endswith(('Result::is_ok', 'Result::is_err')) and not t2_['d'][1]:
                        if div_ is None:
                            div_ = diverging_blocks(b_)
                        for sb_, ts_, fs_ in bool_uses(b_, t2_['d'][0]):
                            if (ts_ in div_) != (fs_ in div_):
                                bad = (x_, 'assert on is_ok()/is_err() of the send result')
            ctx.ob('R09.13', f'{owner_fn(prog, p_).split("::")[-1]}|oneshot send result not asserted', bad is None,
                   f'{owner_fn(prog, p_).split("::")[-1]}: {bad[1] if bad else "the send result is handled"} (a cancel or time limit that arrives after the task process ended but before the launcher future finished - e.g. while streamed output is flushed - finds the receiver dropped and panics the worker)', b_.loc(bad[0]) if bad else b_.loc(bi_))
    ctx.floor('R09.13', nsend, 1, 'oneshot sends in the tako worker / server runtime')

    # ---- R09.14 client-supplied resource requests are validated by the server before they take effect
    ctx.rule('R09.14', 'handle_submit validates the resource requests of the submit (gateway ResourceRequest::validate: non-zero amounts, no duplicate resource, at least one variant) before anything is stored, journaled or handed to tako; the scheduler divides by requested amounts')
    SUBM = HQ + 'client::submit::'
    hsb = prog.body(SUBM + 'handle_submit')
    val = effect_blocks(prog, hsb, Effect('rq.validate', callees={'tako::gateway::ResourceRequest::validate'}))
    eff_sites = []
    for nm_, cs_ in (('journal', hsb.call_blocks(STREAMER + 'on_job_submitted')), ('new job id', hsb.call_blocks(HQ + 'state::State::new_job_id')),
                     ('submit_job_desc', hsb.call_blocks(SUBM + 'submit_job_desc')), ('add_new_tasks', hsb.call_blocks(lambda c: c.endswith('ServerRef::add_new_tasks')))):
        for x_ in cs_:
            eff_sites.append((nm_, x_))
    ctx.floor('R09.14', len(eff_sites), 3, 'effects of handle_submit')
    ctx.ob('R09.14', 'handle_submit|resource requests validated before any effect', bool(val) and all(x_ not in hsb.reach_from([0], avoid=val) for nm_, x_ in eff_sites),
           'ResourceRequest::validate is reached (for every variant of every request) on every path before the submit is journaled, gets a job id, is attached to the job or reaches tako', hsb.loc(sorted(val)[0]) if val else hsb.loc())
    rqv = prog.body('tako::gateway::ResourceRequest::validate')
    pv_ = effect_blocks(prog, rqv, Effect('policy.validate', callees={'tako::internal::common::resources::request::AllocationRequest::validate'}))
    ctx.ob('R09.14', 'ResourceRequest::validate|checks every amount', bool(pv_), 'the gateway validation calls AllocationRequest::validate (zero amounts are refused there) for the entries of the request', rqv.loc())

    # ---- R09.15 wall-clock arithmetic does not underflow
    ctx.rule('R09.15', 'Duration - Duration panics on underflow: in the tako runtime every such subtraction is dominated by a comparison of its two operands (or is written saturating / checked); clocks keep running while messages are handled, so "the limit has not passed yet" is not an invariant')
    DSUB = ('time::Duration as core::ops::arith::Sub>::sub',)
    n15 = 0
    for p_, b_ in prog.bodies.items():
        if not p_.startswith((T + 'worker::', T + 'server::', T + 'scheduler::')) or is_test_util(p_) or '::tests::' in p_ or '::_::' in p_ or p_.endswith('::dump'):
            continue
        for bi_, t_, c_ in b_.calls():
            if bi_ not in b_.reachable() or not (c_ or '').endswith(DSUB):
                continue
            n15 += 1
            la, lb = [op_local(a_) for a_ in t_['args'][:2]]
            sa = b_.derived_from(la, through_mutation=False) if la is not None else set()
            sb = b_.derived_from(lb, through_mutation=False) if lb is not None else set()
            guarded = False
            for x_, t2_, c2_ in b_.calls():
                if x_ in b_.reachable() and (callee_decl(t2_) or '').endswith(('PartialOrd::lt', 'PartialOrd::le', 'PartialOrd::gt', 'PartialOrd::ge')) and b_.dominates(x_, bi_):
                    l1, l2 = [op_local(a_) for a_ in t2_['args'][:2]]
                    s1 = b_.derived_from(l1, through_mutation=False) if l1 is not None else set()
                    s2 = b_.derived_from(l2, through_mutation=False) if l2 is not None else set()
                    # operands are usually passed by reference to copies: compare through the common Duration-typed sources
                    dur = lambda ss: {x for x in ss if 'time::Duration' in b_.locals[x][0]}
                    if (dur(s1) & dur(sa) and dur(s2) & dur(sb)) or (dur(s1) & dur(sb) and dur(s2) & dur(sa)):
                        guarded = True
            ctx.ob('R09.15', f'{owner_fn(prog, p_).split("::")[-2]}::{owner_fn(prog, p_).split("::")[-1]}|Duration subtraction guarded', guarded,
                   f'{owner_fn(prog, p_).split("::")[-1]}: `a - b` on Durations is preceded by a comparison of a and b (otherwise it panics as soon as b exceeds a, e.g. a worker that handles a message after its time limit has passed)', b_.loc(bi_))
    ctx.floor('R09.15', n15, 1, 'Duration subtractions in the tako runtime')

    # ---- R09.16 no empty priority level is left in a ready queue
    ctx.rule('R09.16', 'TaskQueue invariant "no empty level": every removal of an id from a More(set) level in TaskQueue::remove is followed by an is_empty test whose true edge removes the level from the queue; take_one (multi-node) does first_entry().pop_first().unwrap() and panics on an empty level')
    TQ = T + 'scheduler::taskqueue::TaskQueue::'
    tqr9 = prog.body(TQ + 'remove')
    setrem = [bi for bi, t, c in tqr9.calls() if bi in tqr9.reachable() and (c or '').endswith(('Set::remove', 'HashSet::remove', 'BTreeSet::remove')) and 'prefill' not in local_field_sources(tqr9, op_local(t['args'][0]), through_mutation=False)]
    ctx.floor('R09.16', len(setrem), 1, 'set removals in TaskQueue::remove (queue part)')
    for sr_ in setrem:
        ie9 = [x for x in tqr9.call_blocks(lambda c: c.endswith('::is_empty')) if x in tqr9.reach_after(sr_)]
        er9 = [x for x in tqr9.call_blocks(lambda c: c.endswith(('OccupiedEntry::remove', 'OccupiedEntry::remove_entry', 'BTreeMap::remove'))) if x in tqr9.reach_after(sr_)]
        okq = False
        for x in ie9:
            dl = tqr9.term[x]['d'][0]
            for sb, ts, fs in bool_uses(tqr9, dl):
                if any(y in tqr9.reach_from([ts]) and y not in tqr9.reach_from([fs], avoid=[sb]) for y in er9):
                    okq = True
        okm, _w = must_pass(tqr9, [sr_], ie9) if ie9 else (False, None)
        ctx.ob('R09.16', 'TaskQueue::remove|emptied level removed', okq and okm, 'after an id was removed from a More(set) level the set is tested for emptiness on every path and an empty level is removed from the queue', tqr9.loc(sr_))
    to9 = prog.body(TQ + 'take_one')
    ctx.ob('R09.16', 'take_one|relies on non-empty levels', bool(to9.call_blocks(lambda c: c.endswith(('Option::unwrap', 'Option::expect')))), 'take_one unwraps the first element of the first level (which is why the invariant matters)', to9.loc())

    # ---- R09.6 / R09.7
    ctx.rule('R09.6', 'no panicking task lookup inside a loop whose body may remove tasks from the core (ids collected before the loop can be gone when their turn comes)')
    ctx.rule('R09.7', 'TaskQueue::remove asserts membership in one arm: every call site must be guarded by a test that implies the task is queue-resident (or no arm may diverge)')
    nloops = 0
    for hp in [REACTOR + x for x in ('on_remove_worker', 'on_cancel_tasks', 'task_failed', 'task_finished', 'on_retract_response', 'on_task_update', 'on_new_tasks')]:
        b = prog.body(hp)
        delb = effect_blocks(prog, b, E_DEL)
        for bi, t, c in b.calls():
            if c not in PANICKING_LOOKUPS or bi not in b.reachable():
                continue
            for h in loop_headers_containing(b, bi):
                # blocks of this loop: reachable from h and able to reach h again
                loop_blocks = b.reach_from([h]) & b.coreach([h])
                removers_in_loop = sorted(x for x in delb if x in loop_blocks and x != bi)
                if not removers_in_loop:
                    continue
                # the key comes from the loop item (collected before the loop)
                item = None
                for x in sorted(loop_blocks):
                    tt = b.term[x]
                    if tt and tt['k'] == 'call' and (callee_decl(tt) or '').endswith('Iterator::next') and loop_headers_containing(b, x)[:1] == [h]:
                        item = tt['d'][0]
                kl = op_local(t['args'][1]) if len(t['args']) > 1 else None
                if item is None or kl is None or item not in b.derived_from(kl):
                    continue
                nloops += 1
                ctx.ob('R09.6', f'{hp.split("::")[-1]}|{callee_of(t).split("::")[-1]} in removing loop', False,
                       f'{hp.split("::")[-1]}: {callee_of(t).split("::")[-1]} (panics on an unknown id) is keyed by the loop item while the loop body can remove tasks ({b.loc(removers_in_loop[0])}); an earlier iteration may have removed this id', b.loc(bi))
    ctx.ob('R09.6', 'loops scanned', True, f'reactor loops combining a panicking lookup with a transitive Core::remove_task: {nloops}', None)
    tqr = prog.body(TQ + 'remove')
    div = diverging_blocks(tqr)
    asserting = bool(div)
    for o, b, bi in call_sites(prog, TQ + 'remove'):
        if is_test_util(o):
            continue
        vs = variants_at(b, TRS, bi)
        guarded = False
        why = ''
        if vs and set(vs) <= {'Prefilled'}:
            guarded, why = True, 'state Prefilled (member of the prefill set)'
        else:
            # a test of unfinished_deps == 0 (switch on the field or Eq with const 0) dominating the call
            for x in b.reachable():
                tt = b.term[x]
                if tt and tt['k'] == 'sw' and b.dominates(x, bi):
                    l = op_local(tt['op'])
                    if l is not None and ('unfinished_deps' in local_field_sources(b, l) or 'unfinished_deps' in [n for n, a_, v_ in place_fields(op_place(tt['op']))]):
                        zero_t = [tb for v, tb in tt['ts'] if v == 0]
                        if zero_t and bi in b.reach_from(zero_t, avoid_edges=[(x, y) for y in b.succ[x] if y not in zero_t]) and \
                                bi not in b.reach_from([y for y in b.succ[x] if y not in zero_t], avoid=[x]):
                            guarded, why = True, 'unfinished_deps == 0'
            e, _ = guard_edges(b, TASK + '::is_ready', True)
            if e and dominated_by_edges(b, bi, e):
                guarded, why = True, 'is_ready()'
            from hqrules.templates import binops, operand_fields, bool_uses
            for x, s_, op, a_, c_ in binops(b):
                if op == 'Eq' and any(o[0] == 'k' and '0_' in o[1] for o in (a_, c_)) and 'unfinished_deps' in (operand_fields(b, a_) | operand_fields(b, c_)):
                    te = set((sb, ts) for sb, ts, fs in bool_uses(b, s_['p'][0]))
                    if te and dominated_by_edges(b, bi, te):
                        guarded, why = True, 'unfinished_deps == 0'
        ctx.ob('R09.7', f'{o.split("::")[-1]}|TaskQueue::remove call guarded', guarded or not asserting,
               f'{o.split("::")[-1]} calls TaskQueue::remove, whose `One` arm asserts that the removed id is the queued one; the call must imply queue membership '
               f'({"guard: " + why if guarded else "no guard: a Waiting task with unfinished dependencies is not in the queue, and a single ready task of the same priority trips the assertion"})', b.loc(bi))

    # ---- informational inventory
    inv = defaultdict(int)
    for hp in list(handlers) + [REACTOR + 'on_cancel_tasks', REACTOR + 'on_remove_worker', REACTOR + 'on_new_tasks', MAPPING + 'create_task_mapping']:
        b = prog.body(hp)
        for bi in b.reachable():
            t = b.term[bi]
            if t and t['k'] == 'call' and t.get('never'):
                inv[(hp.split('::')[-1], (t.get('x') or 'call').split('>')[-1])] += 1
    ctx.note('diverging_sites_inventory', {f'{k[0]}:{k[1]}': v for k, v in sorted(inv.items())})

    # ---- R09.17 ids and indices of a submit are validated before they are iterated or used as an index
    ctx.rule('R09.17', 'handle_submit validates the task ids of an array submit (IntArray::validate: non-zero step, no overflow, no id twice) and the resource-request indices of a graph submit before anything iterates the ids, indexes the requests, is stored or is journaled; validate_submit itself contains no assertion on client data')
    hs17 = prog.body(HQ + 'client::submit::handle_submit')
    v17 = effect_blocks(prog, hs17, Effect('ids.validate', callees={'hyperqueue::common::arraydef::IntArray::validate'}))
    eff17 = hs17.call_blocks(STREAMER + 'on_job_submitted') + hs17.call_blocks(HQ + 'state::State::new_job_id') + hs17.call_blocks(HQ + 'client::submit::submit_job_desc') + hs17.call_blocks(HQ + 'client::submit::validate_submit') + \
        [bi for bi, t, c in hs17.calls() if bi in hs17.reachable() and (c or '').endswith('IntArray::iter')]
    ctx.floor('R09.17', len(eff17), 3, 'effects / id iterations of handle_submit')
    ctx.ob('R09.17', 'handle_submit|ids validated first', bool(v17) and all(x not in hs17.reach_from([0], avoid=v17) for x in eff17),
           'IntArray::validate (and the resource-request index check next to it) dominates validate_submit, every iteration of the ids and every effect of the submit', hs17.loc(sorted(v17)[0]) if v17 else hs17.loc())
    vsb = prog.body(HQ + 'client::submit::validate_submit')
    asserts = [bi for bi in vsb.reachable() if vsb.term[bi] and vsb.term[bi]['k'] == 'call' and (callee_of(vsb.term[bi]) or '').endswith(('panicking::panic', 'panicking::panic_fmt', 'panicking::assert_failed')) and 'IndexVec' not in (vsb.term[bi].get('x') or '')]
    ctx.ob('R09.17', 'validate_submit|no assertion on client data', not asserts, 'validate_submit refuses, it does not assert', vsb.loc(asserts[0]) if asserts else vsb.loc())
    iav = prog.body('hyperqueue::common::arraydef::IntArray::validate')
    iav_bodies = [iav] + [prog.bodies[c_] for c_ in prog.may_call(iav.path) if c_ in prog.bodies and c_.startswith('hyperqueue::common::arraydef::')]
    ctx.ob('R09.17', 'IntArray::validate|step, overflow, duplicates', any(b_.call_blocks(lambda c: c.endswith('checked_add')) for b_ in iav_bodies) and any((c or '').endswith(('Set::insert', 'HashSet::insert')) for p_ in prog.with_closures(iav.path) for bi, t, c in prog.bodies[p_].calls()),
           'IntArray::validate checks the step, the end of every range (checked_add) and the uniqueness of the ids (a set)', iav.loc())

    # ---- R09.18 the id selectors of every client request are validated before dispatch
    ctx.rule('R09.18', 'client_rpc_loop validates every incoming message (FromClientMessage::validate: the ranges of its IdSelector / TaskSelector arrays have a non-zero step and do not overflow) before any handler is reached; the validation matches every message kind explicitly (no wildcard that would let a new kind with a selector through)')
    crl18 = [prog.bodies[p_] for p_ in prog.with_closures(HQ + 'client::client_rpc_loop') if prog.bodies[p_].kind == 'coroutine']
    ctx.require(crl18, 'R09.18: client_rpc_loop coroutine')
    cb18 = max(crl18, key=lambda b_: b_.n)
    FCM = 'hyperqueue::transfer::messages::FromClientMessage'
    val18 = cb18.call_blocks(FCM + '::validate')
    handlers = [bi for bi, t, c in cb18.calls() if bi in cb18.reachable() and (c or '').startswith(HQ + 'client::') and ('::handle_' in (c or '') or (c or '').endswith(('compute_job_info', 'compute_job_detail')))]
    ctx.floor('R09.18', len(handlers), 8, 'handler calls in client_rpc_loop')
    hs18 = loop_headers_containing(cb18, handlers[0])
    ctx.ob('R09.18', 'client_rpc_loop|message validated before dispatch', bool(val18) and all(x not in cb18.reach_from(hs18[:1] or [0], avoid=val18) for x in handlers),
           'FromClientMessage::validate dominates every handler call in each iteration of the receive loop', cb18.loc(val18[0]) if val18 else cb18.loc(handlers[0]))
    if val18:
        vb18 = prog.body(FCM + '::validate')
        sws = [bi for bi in vb18.reachable() if (vb18.switch_info(bi) or {}).get('kind') == 'discr' and vb18.switch_info(bi)['enum'] == FCM]
        exh = False
        for sb in sws[:1]:
            t_ = vb18.term[sb]
            other = vb18.term[t_['o']]
            exh = len(t_['ts']) == len(prog.variants(FCM)) and other and other['k'] == 'unreach'
        ctx.ob('R09.18', 'FromClientMessage::validate|every message kind matched explicitly', exh, f'the validation has an explicit arm for each of the {len(prog.variants(FCM))} message kinds', vb18.loc())
        ctx.ob('R09.18', 'FromClientMessage::validate|checks the ranges', bool(effect_blocks(prog, vb18, Effect('validate_ranges', callees={'hyperqueue::common::arraydef::IntArray::validate_ranges', 'hyperqueue::common::arraydef::IntArray::validate'}))), 'selectors are checked with IntArray::validate_ranges', vb18.loc())

    # ---- R09.19 a vector used as WorkerResources has one slot per resource id
    ctx.rule('R09.19', 'scheduler gap computation: the amounts that become a WorkerResources (indexed by resource id everywhere) are produced one per resource id (iter_amounts().enumerate()); WorkerResources::iter_pairs skips zero entries, a vector collected from it is shorter and shifted for a worker that lacks a resource between two of its own (index out of bounds in GapCache::get_gap, wrong gap otherwise)')
    cgr = prog.body(T + 'scheduler::gap::compute_gap_resources')
    WRN = [bi for bi, t, c in cgr.calls() if bi in cgr.reachable() and (c or '').endswith('WorkerResources::new')]
    ctx.floor('R09.19', len(WRN), 1, 'WorkerResources::new in compute_gap_resources')
    nres = 0
    for wb in WRN:
        l_ = op_local(cgr.term[wb]['args'][0])
        feeders = {(callee_of(d_[2]) or '') for x_ in (cgr.derived_from(l_, through_mutation=False) if l_ is not None else ()) for d_ in cgr.defs().get(x_, ()) if d_[1] == 'call'}
        if not any(c_.endswith(('Iterator::collect', 'iter_amounts', 'iter_pairs')) for c_ in feeders):
            continue       # the empty early-return vector
        nres += 1
        ctx.ob('R09.19', 'compute_gap_resources|dense vector', any(c_.endswith('WorkerResources::iter_amounts') for c_ in feeders) and not any(c_.endswith('WorkerResources::iter_pairs') for c_ in feeders),
               'the gap vector is collected over iter_amounts() (one element per resource id), not over iter_pairs() (non-zero entries only)', cgr.loc(wb))
    ctx.floor('R09.19', nres, 1, 'collected gap vectors')


def _variant_can_return(b, enum, k, v):
    st = b.variant_flow(enum).get(k, {})
    cr = b.can_return()
    # blocks where the variant set is a strict subset containing v
    allv = set(b.prog.variants(enum))
    for bb, vs in st.items():
        if v in vs and set(vs) != allv and bb in cr:
            yield True
