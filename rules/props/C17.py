"""C17 — automatic allocation respects its limits and submits only on demand."""
from hqrules.core import FailClosed, callee_of, callee_decl, op_local, op_place, place_fields, norm, op_const
from hqrules.templates import (effect_blocks, must_pass, state_writes, variants_at, call_sites, construct_sites, Effect,
                               loop_headers_containing, owner_fn, scrutinees, guard_edges, dominated_by_edges,
                               local_field_sources, binops, operand_fields, field_write_sites, field_read_sites, bool_uses,
                               bodies_with_effect)
from .common import *

EXPLANATION = ('Structural conditions of C17: a real submission (SubmitMode::Submit) happens at one call site only, dominated by the demand, '
               'active-state, permit and rate-limiter guards and by on_submission_attempt; the queue ids paired with the scheduler responses '
               'come from the same active-queue list the queries were built from; handle_message / perform_submits / do_periodic_update run only '
               'inside the single select! loop (mutually exclusive); try_pause_queue brackets a submission pass and pauses on both TooMany* states; '
               'every submission outcome updates the limiter and an error stops the pass; resume must clear the limiter state that makes the '
               'safety pause fire again.')
NOT_DECIDED = ['backlog / max-worker-count / per-allocation bounds as invariants over all histories (compute_submission_permit arithmetic)', 'back-off timing (decided only: a resume does not touch the delay, R17.4)']
ASSUMPTIONS = ['single-threaded executor']
AA = HQ + 'autoalloc::'
PROC = AA + 'process::'
QTS = PROC + 'queue_try_submit'
PS = PROC + 'perform_submits'
SM = AA + 'queue::SubmitMode'
RLS = AA + 'state::RateLimiterStatus'
LIM = AA + 'state::RateLimiter'
AQ = AA + 'state::AllocationQueue'
AQS = AA + 'state::AllocationQueueState'
SUBMIT = AA + 'queue::QueueHandler::submit_allocation'
RESULT = 'core::result::Result'


def cor(prog, path):
    cs = [prog.bodies[p] for p in prog.with_closures(path) if prog.bodies[p].kind == 'coroutine']
    if not cs:
        raise FailClosed(f'anchor missing: coroutine of {path}')
    return max(cs, key=lambda b: b.n)


def run(ctx):
    prog = ctx.prog
    ctx.rule('R17.1', 'SubmitMode::Submit is passed to QueueHandler::submit_allocation only in queue_try_submit, dominated by the demand / active / permit / limiter guards; the pass functions run only in the select! loop')
    ctx.rule('R17.2', 'try_pause_queue brackets perform_submits and pauses on both TooMany* limiter states')
    ctx.rule('R17.3', 'limiter bookkeeping: Ok(id) -> on_submission_success; both error arms -> on_submission_fail and the pass stops')
    ctx.rule('R17.4', 'resume makes the queue submit again: the ResumeQueue handler must write the limiter fields that make submission_status report TooMany*')
    ctx.rule('R17.5', 'the queue ids paired with scheduler responses derive from the same active-queue list the queries were built from')

    ctx.rule('R17.6', 'an allocation stops counting towards the worker limit only when it really ended: the normal finish is guarded by lost-workers == submitted size')
    from . import C18 as _c18
    _c18.finish_test(ctx, 'R17.6')
    ctx.rule('R17.7', 'the number of workers of every permitted allocation depends on all documented limits (max worker count minus active workers, backlog minus queued allocations, max workers per allocation) and is never zero')
    csp = prog.body(PROC + 'compute_submission_permit')
    INFO = AA + 'QueueInfo::'
    permit_vec = set()
    for o_, b_, bi_, s_ in construct_sites(prog, PROC + 'SubmissionPermit'):
        if b_.path == csp.path:
            permit_vec |= {x for x in csp.derived_from(op_local(s_['rv'][2][0])) if csp.locals[x][0].startswith('alloc::vec::Vec<u64')}
    pushes = [bi for bi in csp.call_blocks('alloc::vec::Vec::push') if permit_vec & csp.derived_from(op_local(csp.term[bi]['args'][0]))]
    ctx.require(len(pushes) == 1, 'R17.7: push into allocations')
    pv = op_local(csp.term[pushes[0]]['args'][1])
    srcs = csp.derived_from(pv)
    def dep_on(callee_suffix, through_iter=False):
        cs = csp.call_blocks(lambda c: c.endswith(callee_suffix))
        return any(csp.term[x]['d'][0] in srcs for x in cs), cs
    for nm, suf in (('max_worker_count', 'QueueInfo::max_worker_count'), ('active workers', 'AllocationQueue::active_worker_count')):
        ok, cs = dep_on(suf)
        ctx.ob('R17.7', f'permit|depends on {nm}', ok, f'the permitted worker count is bounded through {nm}', csp.loc(cs[0]) if cs else csp.loc())
    # the loop iterator is take(backlog - queued)
    tk = csp.call_blocks(lambda c: c.endswith('Iterator::take'))
    ctx.require(tk, 'R17.7: take(max_allocs_to_submit)')
    tsrc = csp.derived_from(op_local(csp.term[tk[0]]['args'][1]))
    bl = csp.call_blocks(lambda c: c.endswith('QueueInfo::backlog'))
    ql = csp.call_blocks(lambda c: c.endswith('Vec::len'))
    ctx.ob('R17.7', 'permit|number of allocations <= backlog - queued', any(csp.term[x]['d'][0] in tsrc for x in bl) and any(csp.term[x]['d'][0] in tsrc for x in ql) and csp.term[tk[0]]['d'][0] in csp.derived_from(pv),
           'the allocations to submit are cut by take(backlog - queued allocations)', csp.loc(tk[0]))
    # the cut applies to the whole sequence of allocations (multi-node first, then single-node): take() is the outermost
    # adapter of the iterator the allocation loop consumes
    hs_p = loop_headers_containing(csp, pushes[0])
    outer = False
    for nb_, t_, c_ in csp.calls():
        if nb_ in csp.reachable() and (callee_decl(t_) or c_ or '').endswith('Iterator::next') and hs_p and hs_p[0] in loop_headers_containing(csp, nb_) and csp.dominates(nb_, pushes[0]):
            ty_ = csp.locals[op_local(t_['args'][0])][0].replace('&mut ', '').strip()
            if ty_.startswith('core::iter::adapters::take::Take<') and csp.term[tk[0]]['d'][0] in csp.derived_from(op_local(t_['args'][0])):
                outer = True
    ctx.ob('R17.7', 'permit|backlog cut covers multi-node and single-node allocations', outer,
           'the allocation loop iterates Take<..> over the chained multi-node and single-node allocations (a take() on one part only lets the other part exceed the backlog)', csp.loc(tk[0]))
    mw = csp.call_blocks(lambda c: c.endswith('QueueInfo::max_workers_per_alloc'))
    ctx.ob('R17.7', 'permit|per-allocation limit', len(mw) >= 2 and any(csp.term[x]['d'][0] in srcs for x in mw), 'single-node allocations are sized by max_workers_per_alloc', csp.loc(mw[0]) if mw else csp.loc())
    mn = csp.call_blocks(lambda c: c.endswith('cmp::Ord::min'))
    ctx.ob('R17.7', 'permit|min with remaining workers', any(csp.term[x]['d'][0] in srcs for x in mn), 'each allocation is clamped by the remaining worker budget (min)', csp.loc(mn[0]) if mn else csp.loc())
    from hqrules.templates import bool_uses
    mind = {csp.term[x]['d'][0] for x in mn if csp.term[x]['d'][0] in srcs}
    z = [(bi, s_) for bi, s_, op, a, c in binops(csp) if op == 'Eq' and any(o[0] == 'k' and '0_' in o[1] for o in (a, c))
         and any(mind & csp.derived_from(op_local(o), through_mutation=False) for o in (a, c) if op_local(o) is not None)]
    okz = False
    for bi, s_ in z:
        fe = set((sb, fs) for sb, ts, fs in bool_uses(csp, s_['p'][0]))
        if fe and dominated_by_edges(csp, pushes[0], fe):
            okz = True
    ctx.ob('R17.7', 'permit|no empty allocation', okz, 'an allocation of zero workers is never permitted (the loop stops at to_spawn == 0)', csp.loc(pushes[0]))
    # ---- R17.8 / R17.9
    ctx.rule('R17.8', 'workers counted against max_worker_count = sum of the SUBMITTED sizes (target_worker_count) of all active allocations, independent of how many workers are currently connected')
    ctx.rule('R17.9', 'demand is computed from the exact resources of a worker that already connected from the queue when they are known; the CLI hint (partial, padded with unlimited amounts) is used only otherwise')
    awc = [prog.bodies[p_] for p_ in prog.with_closures(AQ + '::active_worker_count')]
    from hqrules.core import rv_places
    fields_read = set()
    status_dep = False
    for b_ in awc:
        for bi_ in b_.reachable():
            for s_ in b_.stmts(bi_):
                if s_['k'] == 'a':
                    for pl_ in rv_places(s_['rv']):
                        for n_, a_, v_ in place_fields(pl_):
                            if a_ == AA + 'state::Allocation' or a_ == AA + 'state::AllocationState':
                                fields_read.add(n_)
                    if s_['rv'][0] == 'discr' and s_['rv'][2] == AA + 'state::AllocationState':
                        status_dep = True
    ctx.ob('R17.8', 'active_worker_count|submitted size', 'target_worker_count' in fields_read and not status_dep and 'connected_workers' not in fields_read,
           f'active_worker_count sums target_worker_count and does not look at the allocation status / connected set (fields read: {sorted(fields_read)}, status inspected: {status_dep})', awc[0].loc())
    ctx.ob('R17.8', 'active_worker_count|active allocations only', bool(awc[0].call_blocks(AQ + '::active_allocations')), 'only queued and running allocations are counted', awc[0].loc())
    cq = prog.body(PROC + 'create_queue_worker_query')
    gw = cq.call_blocks(AQ + '::get_worker_resources')
    cli = cq.call_blocks(lambda c: c.endswith('QueueInfo::cli_resource_descriptor'))
    ctx.require(gw and cli, 'R17.9: get_worker_resources / cli_resource_descriptor in create_queue_worker_query')
    OPT_ = 'core::option::Option'
    keys_ = sorted([k for k, d in scrutinees(cq, OPT_).items() if d['root'] == cq.term[gw[0]]['d'][0]], key=len)
    vs_ = variants_at(cq, OPT_, cli[0], keys_[0]) if keys_ else None
    ctx.ob('R17.9', 'create_queue_worker_query|known worker resources first', vs_ is not None and set(vs_) == {'None'},
           f'the CLI resource hint is consulted only when no worker resources are known for the queue (observed: hint read under get_worker_resources() = {sorted(vs_) if vs_ else vs_})', cq.loc(cli[0]))
    # ---- R17.1
    n = 0
    for o, b, bi in call_sites(prog, SUBMIT):
        if is_test_util(o):
            continue
        t = b.term[bi]
        ml = op_local(t['args'][4]) if len(t['args']) > 4 else None
        mode = None
        if ml is not None:
            sd = b.single_def(ml)
            if sd and sd[1] == 'a' and sd[2]['rv'][0] == 'agg' and norm(sd[2]['rv'][1][1]) == SM:
                mode = sd[2]['rv'][1][2]
        n += 1
        if mode == 'Submit':
            ctx.ob('R17.1', f'submit_allocation(Submit)|{o.split("::")[-1]}', o == QTS, 'real submissions happen only in queue_try_submit', b.loc(bi))
        else:
            ctx.ob('R17.1', f'submit_allocation({mode})|{o.split("::")[-1]}', mode == 'DryRun', f'the other call site passes DryRun (observed {mode})', b.loc(bi))
    ctx.floor('R17.1', n, 1, 'submit_allocation call sites')
    q = cor(prog, QTS)
    sb = q.call_blocks(SUBMIT)
    ctx.require(len(sb) == 1, 'R17.1: one submit_allocation call in queue_try_submit')
    sb = sb[0]
    e, _ = guard_edges(q, PROC + 'QueryResponse::is_empty', False)
    ctx.ob('R17.1', 'guard|demand', dominated_by_edges(q, sb, e, False), 'nothing is submitted for an empty scheduler response (no waiting task could run on this queue)', q.loc(sb))
    e, _ = guard_edges(q, AQS + '::is_active', True)
    ctx.ob('R17.1', 'guard|active', dominated_by_edges(q, sb, e, False), 'nothing is submitted for a paused queue', q.loc(sb))
    e, _ = guard_edges(q, PROC + 'SubmissionPermit::is_empty', False)
    ctx.ob('R17.1', 'guard|permit', dominated_by_edges(q, sb, e, False), 'nothing is submitted when the limits leave no room', q.loc(sb))
    att = q.call_blocks(LIM + '::on_submission_attempt')
    ctx.require(att, 'R17.1: on_submission_attempt')
    vs = variants_at(q, RLS, att[0])
    ctx.ob('R17.1', 'guard|limiter Ok', vs is not None and set(vs) == {'Ok'}, f'an attempt is made only when submission_status() is Ok (observed {sorted(vs) if vs else vs})', q.loc(att[0]))
    ctx.ob('R17.1', 'guard|attempt recorded first', sb not in q.reach_from([0], avoid=att), 'on_submission_attempt (which starts the back-off clock) dominates the submission', q.loc(sb))
    st = q.call_blocks(LIM + '::submission_status')
    ctx.ob('R17.1', 'guard|status consulted', bool(st) and att[0] not in q.reach_from([0], avoid=st), 'the limiter is consulted before the attempt', q.loc(att[0]))
    # exclusivity: pass functions called only from autoalloc_process's select loop
    for fn in ('handle_message', 'perform_submits', 'do_periodic_update'):
        callers = set(o for o, b, bi in call_sites(prog, PROC + fn) if not is_test_util(o))
        ctx.ob('R17.1', f'{fn}|called only from the select loop', callers == {PROC + 'autoalloc_process'}, f'{fn} runs only inside autoalloc_process (observed {sorted(x.split("::")[-1] for x in callers)})', None)
    ap = [prog.bodies[p] for p in prog.with_closures(PROC + 'autoalloc_process')]
    spawns = [c for b in ap for bi, t, c in b.calls() if c and ('spawn_local' in c or c.endswith('task::spawn'))]
    ctx.ob('R17.1', 'autoalloc_process|no spawn', not spawns, 'the pass functions are awaited in place, never spawned (so pause/remove cannot interleave with a pass)', ap[0].loc())

    # ---- R17.2
    p_ = cor(prog, PS)
    tp = p_.call_blocks(PROC + 'try_pause_queue')
    qt = p_.call_blocks(QTS)
    ctx.require(len(tp) >= 2 and qt, 'R17.2: anchors in perform_submits')
    before = [x for x in tp if qt[0] in p_.reach_from([x]) and x not in p_.reach_after(qt[0])]
    after = [x for x in tp if x in p_.reach_after(qt[0]) and qt[0] not in p_.reach_after(x)]
    ctx.require(before and after, 'R17.2: try_pause_queue before/after the submissions')
    h1 = loop_headers_containing(p_, before[0])
    h2 = loop_headers_containing(p_, after[0])
    ctx.ob('R17.2', 'perform_submits|pause check before', bool(h1) and qt[0] not in p_.reach_from([0], avoid=h1[:1]),
           'the pause-check loop (try_pause_queue for every queue) runs before any submission of the pass', p_.loc(before[0]))
    ok, _ = must_pass(p_, qt, h2[:1]) if h2 else (False, None)
    ctx.ob('R17.2', 'perform_submits|pause check after', ok,
           'after the submissions of a pass the pause-check loop runs on every path (a queue that just hit its failure limit is paused at once)', p_.loc(after[0]))
    tb = prog.body(PROC + 'try_pause_queue')
    pz = tb.call_blocks(AQ + '::pause')
    fl = tb.variant_flow(RLS)
    ctx.require(fl and pz, 'R17.2: RateLimiterStatus match / pause call in try_pause_queue')
    paused_under = set()
    for x in pz:
        vs = variants_at(tb, RLS, x)
        paused_under |= set(vs or [])
    ctx.ob('R17.2', 'try_pause_queue|pauses on both TooMany*', paused_under == {'TooManyFailedSubmissions', 'TooManyFailedAllocations'}, f'the queue is paused exactly under the two TooMany* states (observed {sorted(paused_under)})', tb.loc())
    ss = prog.body(LIM + '::submission_status')
    cmpf = {}
    for bi, s, op, a, c in binops(ss):
        if op in ('Ge', 'Gt', 'Le', 'Lt', 'Eq'):
            f = (operand_fields(ss, a) | operand_fields(ss, c)) & {'allocation_fails', 'submission_fails'}
            for x in f:
                cmpf[x] = op
    ctx.ob('R17.2', 'submission_status|>= limits', cmpf.get('allocation_fails') == 'Ge' and cmpf.get('submission_fails') == 'Ge', f'TooMany* is reported when fails >= max (observed {cmpf})', ss.loc())

    # ---- R17.3
    succ = q.call_blocks(LIM + '::on_submission_success')
    fail = q.call_blocks(LIM + '::on_submission_fail')
    ctx.require(succ and len(fail) >= 2, 'R17.3: limiter calls in queue_try_submit')
    add = q.call_blocks(AA + 'state::AutoAllocState::add_allocation')
    ctx.ob('R17.3', 'Ok(id)|allocation recorded and success', bool(add) and succ[0] in q.reach_from(add), 'a successful submission records the allocation and resets the submission-failure counter', q.loc(succ[0]))
    hs = loop_headers_containing(q, sb)
    for i, f in enumerate(sorted(fail)):
        # after a failure the pass stops: the loop header is not reachable again
        again = bool(hs) and hs[0] in q.reach_after(f)
        ctx.ob('R17.3', f'error arm {i}|fail counted and pass stops', not again, 'a failed submission is counted and no further allocation is attempted in this pass', q.loc(f))
    # every Result arm after the await is covered: from the submit call every path to the loop header/return passes a limiter call or a get_or_return early exit
    lim_blocks = set(succ) | set(fail)
    ok, wit = must_pass(q, [sb], lim_blocks, exits=list(q.returns()) + hs[:1])
    ctx.ob('R17.3', 'every outcome updates the limiter', ok or _only_missing_queue(q, sb, lim_blocks, hs), 'after a submission attempt every path records success or failure in the limiter (except when the queue vanished)', q.loc(sb))

    # ---- R17.4
    # fields whose value makes submission_status return TooMany*
    blocking_fields = set(cmpf)
    hmc = cor(prog, PROC + 'handle_message')
    AM = AA + 'service::AutoAllocMessage'
    entries, region = hmc.arm_entries(AM, {'ResumeQueue'})
    ctx.require(region, 'R17.4: ResumeQueue arm')
    callees = set()
    for x in region:
        t = hmc.term[x]
        if t and t['k'] == 'call':
            for tg in prog.call_targets(t):
                callees.add(tg)
                callees |= {c for c in prog.may_call(tg) if c in prog.bodies}
    written = set()
    for f in blocking_fields:
        for o, b, bi, st, kind in field_write_sites(prog, LIM, f):
            if kind == 'write' and (b.path in callees or owner_fn(prog, b.path) in callees):
                written.add(f)
    rz = prog.body(AQ + '::resume')
    ctx.ob('R17.4', 'ResumeQueue|clears limiter failure state', written == blocking_fields and bool(blocking_fields),
           f'the ResumeQueue handler must reset {sorted(blocking_fields)} (read by submission_status for TooMany*); otherwise a queue paused by the safety limits is paused again by the next try_pause_queue and resume is a no-op (written: {sorted(written)})',
           rz.loc())
    # ... and nothing else of the limiter: the back-off delay and the time of the last attempt survive a resume
    lim_fields = [f['name'] if isinstance(f, dict) else f[0] for f in (prog.adt(LIM).get('fields') or prog.adt(LIM)['variants'][0]['fields'])]
    written_all = set()
    for f in lim_fields:
        for o, b, bi, st, kind in field_write_sites(prog, LIM, f):
            if kind == 'write' and (b.path in callees or owner_fn(prog, b.path) in callees):
                written_all.add(f)
    ctx.ob('R17.4', 'ResumeQueue|keeps the back-off', written_all <= blocking_fields and bool(written_all),
           f'the ResumeQueue handler writes only the failure counters of the limiter (written: {sorted(written_all)}); resetting current_delay / last_submission lets a resumed queue submit sooner after a failed attempt than the back-off delay', rz.loc())
    sw = [v for bi, s, v, pl in state_writes(rz, AQS)]
    ctx.ob('R17.4', 'resume|Active', sw == ['Active'], 'resume sets the queue Active', rz.loc())
    # ResumeQueue asks for a scheduling pass
    rets = set()
    for x in region:
        for s in hmc.stmts(x):
            if s['k'] == 'a' and s['p'] == [0, []] and s['rv'][0] == 'use' and s['rv'][1][0] == 'k':
                rets.add(s['rv'][1][1].replace('const ', ''))
    ctx.ob('R17.4', 'ResumeQueue|requests scheduling', rets == {'true'}, f'the ResumeQueue handler asks for a submission pass (returns {sorted(rets)})', hmc.loc(entries[0]))

    # ---- R17.5
    cq = p_.call_blocks(PROC + 'compute_query_responses')
    ctx.require(cq, 'R17.5: compute_query_responses')
    t = p_.term[qt[0]]
    qid_l, resp_l = op_local(t['args'][1]), op_local(t['args'][3])
    queries_l = op_local(p_.term[cq[0]]['args'][1])
    vec_ty = lambda l: p_.locals[l][0].startswith('alloc::vec::Vec<(') and 'AllocationQueue' in p_.locals[l][0]
    src_q = {l for l in p_.derived_from(queries_l, through_mutation=False) if vec_ty(l)}
    # the pairing is done by Iterator::zip(responses, ids): look at its two operands separately (the zipped item
    # derives from both, which would hide a wrong id list)
    zips = [bi for bi in p_.call_blocks(lambda c: c.endswith('Iterator::zip')) if p_.term[bi]['d'][0] in p_.derived_from(qid_l)]
    if zips:
        zt = p_.term[zips[0]]
        ops = [op_local(a) for a in zt['args']]
        resp_d = p_.term[cq[0]]['d'][0]
        id_ops = [l for l in ops if l is not None and resp_d not in p_.derived_from(l, through_mutation=False)]
        ctx.require(len(id_ops) == 1, 'R17.5: cannot tell the id operand of zip from the response operand')
        qid_l = id_ops[0]
    src_id = {l for l in p_.derived_from(qid_l, through_mutation=False) if vec_ty(l)}
    ctx.ob('R17.5', 'perform_submits|ids and queries from one list', bool(src_q) and bool(src_q & src_id),
           'the queue id handed to queue_try_submit comes from the same filtered (active) queue list that produced the queries; a different list shifts responses onto other queues', p_.loc(qt[0]),
           dict(query_sources=sorted(src_q), id_sources=sorted(src_id)))
    ctx.ob('R17.5', 'perform_submits|response from compute_query_responses', p_.term[cq[0]]['d'][0] in p_.derived_from(resp_l), 'the response handed to queue_try_submit comes from compute_query_responses', p_.loc(qt[0]))
    # the list is filtered by is_active
    filt = [prog.bodies[p] for p in prog.children(p_.path) if prog.bodies[p].call_blocks(AQS + '::is_active')]
    ctx.ob('R17.5', 'perform_submits|active filter', bool(filt), 'the queue list is filtered by state().is_active()', p_.loc())

    # ---- R17.10 the limiter is built with the limits in their places
    ctx.rule('R17.10', 'create_rate_limiter passes MAX_SUBMISSION_FAILS as the submission-failure limit and max_allocation_fails() as the allocation-failure limit (both are u64: swapped, a queue pauses after 3 failed submissions and survives 10 failed allocations); RateLimiter::new stores its parameters in the fields of the same name')
    crl_ = prog.body(PROC + 'create_rate_limiter')
    nw = crl_.call_blocks(LIM + '::new')
    ctx.require(nw, 'R17.10: RateLimiter::new call in create_rate_limiter')
    t_ = crl_.term[nw[0]]
    maf = crl_.call_blocks(lambda c: c.endswith('max_allocation_fails'))
    def from_maf(a_):
        l_ = op_local(a_)
        return l_ is not None and any(crl_.term[x]['d'][0] in crl_.derived_from(l_, through_mutation=False) for x in maf)
    ctx.ob('R17.10', 'create_rate_limiter|argument order', bool(maf) and len(t_['args']) >= 3 and from_maf(t_['args'][2]) and not from_maf(t_['args'][1]),
           'argument 2 (max allocation fails) comes from max_allocation_fails(), argument 1 (max submission fails) does not', crl_.loc(nw[0]))
    nb_ = prog.body(LIM + '::new')
    okn = False
    for o_, b_, bi_, s_ in construct_sites(prog, LIM):
        if b_.path != nb_.path:
            continue
        names = s_['rv'][1][3]
        def arg_of(f):
            l_ = op_local(s_['rv'][2][names.index(f)]) if f in names else None
            return {x for x in (nb_.derived_from(l_, through_mutation=False) if l_ is not None else ()) if 1 <= x <= nb_.argc}
        okn = arg_of('max_submission_fails') == {2} and arg_of('max_allocation_fails') == {3}
    ctx.ob('R17.10', 'RateLimiter::new|parameters stored in the fields of the same name', okn, 'parameter 2 -> max_submission_fails, parameter 3 -> max_allocation_fails', nb_.loc())

    # ---- R17.11 the CLI resource hint of a queue keeps --cpus next to other resources
    ctx.rule('R17.11', 'client: construct_resources_from_cli adds the --cpus shorthand unless a resource NAMED cpus was given (the guard searches the items by name); guarded by "no --resource at all" the hint loses its cpus, fails validation and the queue is created without any resource hint (demand for tasks its workers can never run)')
    crc = [p_ for p_ in prog.bodies if p_.endswith('commands::autoalloc::construct_resources_from_cli')]
    ctx.require(len(crc) == 1, 'R17.11: construct_resources_from_cli not found')
    cb_ = prog.body(crc[0])
    RDI = 'tako::internal::common::resources::descriptor::ResourceDescriptorItem'
    pushes = cb_.call_blocks('alloc::vec::Vec::push')
    ctx.require(pushes, 'R17.11: push of the cpus item')
    searched = False
    for p2 in prog.children(cb_.path):
        c2 = prog.bodies[p2]
        if any(f == 'name' for bi in c2.reachable() for st in c2.stmts(bi) if st['k'] == 'a' for pl in __import__('hqrules.core', fromlist=['rv_places']).rv_places(st['rv']) for f, a_, v_ in place_fields(pl)) or \
           any(any(f == 'name' for f, a_, v_ in place_fields(op_place(a))) for bi, t, c in c2.calls() for a in t['args'] if op_place(a)):
            searched = True
    finder = [bi for bi, t, c in cb_.calls() if bi in cb_.reachable() and (callee_decl(t) or c or '').endswith(('Iterator::find', 'Iterator::any', 'Iterator::position', 'Iterator::all'))]
    ctx.ob('R17.11', 'construct_resources_from_cli|cpus shorthand guarded by a search by name', searched and bool(finder) and all(x not in cb_.reach_from([0], avoid=finder) for x in pushes),
           'the push of the cpus item is dominated by a find/any/position over the given resources whose closure reads the item name', cb_.loc(pushes[0]))


def _some_before(b, first, target):
    return any(target not in b.reach_from([0], avoid=[x]) for x in first) or \
        all(True for _ in first) and target not in b.reach_from([0], avoid=first)


def _only_missing_queue(q, sb, lim_blocks, hs):
    """paths from the submission to the next iteration that avoid limiter calls must go through the None arm of get_queue_mut (get_or_return!)."""
    r = q.reach_after(sb, avoid=lim_blocks)
    exits = [x for x in list(q.returns()) + hs[:1] if x in r]
    if not exits:
        return True
    OPTION = 'core::option::Option'
    fl = q.variant_flow(OPTION)
    for e in exits:
        back = q.coreach([e]) & r
        if not any(st.get(x) == frozenset({'None'}) for st in fl.values() for x in back):
            return False
    return True
