"""C08 — cancel is final: canceled tasks never run or report again."""
from hqrules.core import FailClosed, callee_of, callee_decl, op_local, op_place, place_fields, norm
from hqrules.templates import (effect_blocks, must_pass, state_writes, variants_at, call_sites, construct_sites, Effect,
                               check_arm_effect, pick_scrutinee, loop_headers_containing, owner_fn, scrutinees,
                               field_read_sites, local_field_sources, _direct_effect_blocks, bool_uses)
from .common import *
from . import reactor_table, shared_rules

EXPLANATION = ('Structural necessary conditions of C08: on_cancel_tasks releases the bookkeeping owed by each old state, notifies the '
               'worker and forgets the task and its recursive consumers; a queue-resident state must be dequeued when left (R08.2); '
               'cancel_job is core-first, await-free and idempotent; the worker CancelTasks handler covers every container that can hold a task.')
NOT_DECIDED = ['that the worker actually stops the process (OS behaviour)', 'global ordering of late messages (R01.2 covers the unknown-id path)']
RELATED = {'C01': ['R01.2', 'R01.6~handle_task_with_signals'], 'C05': ['R05.5'], 'C10': ['R10.3~Cancel', 'R10.9~^(TasksCanceled|JobCancel)']}
ASSUMPTIONS = ['per-connection FIFO']

OPTION = 'core::option::Option'
WSTATE_ADT = T + 'worker::state::WorkerState'


def run(ctx):
    prog = ctx.prog
    ctx.rule('R08.1', 'on_cancel_tasks: per old state the reservation is released, the right worker is notified, and the id with its recursive consumers is removed from the core')
    ctx.rule('R08.2', 'queue-membership typestate: a task that leaves a queue-resident state (Waiting, Prefilled, and Retracting without redirect) is dequeued')
    ctx.rule('R08.3', 'cancel_job: no effect when nothing is non-terminal (idempotence), core first, no await')
    ctx.rule('R08.4', 'worker CancelTasks handler touches every WorkerState container that can hold a task (running_tasks, prefilled_tasks)')

    ctx.rule('R08.5', 'worker: when a (canceled) task future ends, every path hands its allocation to prefill_loop, which reuses or releases it')
    ctx.rule('R08.6', 'an answered cancel survives a restart: the TasksCanceled replay records never-started tasks as Canceled')
    shared_rules.replay_records_missing_entry(ctx, 'R08.6', events=(('TasksCanceled', 'Canceled'),))
    htf = [prog.bodies[p] for p in prog.with_closures(T + 'worker::reactor::handle_task_future') if prog.bodies[p].kind == 'coroutine']
    ctx.require(htf, 'R08.5: handle_task_future')
    hb = htf[0]
    rr = hb.call_blocks(T + 'worker::state::WorkerState::remove_running_task')
    pl_ = hb.call_blocks(T + 'worker::reactor::prefill_loop')
    ctx.require(rr and pl_, 'R08.5: anchors in handle_task_future')
    ok, wit = must_pass(hb, rr, pl_)
    ctx.ob('R08.5', 'handle_task_future|allocation always handed on', ok, 'after the running task is removed every path (finished, failed, timed out, canceled) reaches prefill_loop with its allocation', hb.loc(wit[1]) if wit else hb.loc(rr[0]))
    pf = prog.body(T + 'worker::reactor::prefill_loop')
    rel = pf.call_blocks(T + 'worker::resources::allocator::ResourceAllocator::release_allocation')
    tst = pf.call_blocks(T + 'worker::reactor::try_start_task')
    ok2, wit2 = must_pass(pf, [0], set(rel) | set(tst))
    ctx.ob('R08.5', 'prefill_loop|reuse or release', bool(rel) and ok2, 'prefill_loop either starts a backlog task with the allocation or releases it, on every path', pf.loc())
    oct_ = prog.body(REACTOR + 'on_cancel_tasks')
    n = reactor_table.run_rows(ctx, 'R08.1', 'C08')
    ctx.floor('R08.1', n, 8, 'reactor rows for C08')
    scrut = pick_scrutinee(oct_, TRS, root_callees=reactor_table.FIND, last_field='state')
    # notification bookkeeping: push into the per-worker cancel map
    msg = effect_blocks(prog, oct_, E_MSG)
    ctx.floor('R08.1', len(msg), 1, 'send_worker_message in on_cancel_tasks')
    mlocals = set()
    for mb in msg:
        t = oct_.term[mb]
        for a in t['args']:
            l = op_local(a)
            if l is not None:
                for x in oct_.derived_from(l):
                    if oct_.locals[x][0].startswith('tako::internal::common::data_structures::Map<tako::internal::common::ids::WorkerId, alloc::vec::Vec<tako::internal::common::ids::TaskId'):
                        mlocals.add(x)
    ctx.require(mlocals, 'R08.1: per-worker cancel map not found')
    pushb = set(bi for bi, t, c in oct_.calls() if c == 'alloc::vec::Vec::push' and bi in oct_.reachable() and mlocals & oct_.derived_from(op_local(t['args'][0])))
    ctx.floor('R08.1', len(pushb), 1, 'pushes into the cancel map')
    for vs in ({'Assigned', 'Running'}, {'RunningMultiNode'}, {'Retracting'}, {'Prefilled'}):
        entries, region = oct_.arm_entries(TRS, vs, scrut)
        ctx.require(region, f'R08.1: no arm for {vs}')
        hs = loop_headers_containing(oct_, entries[0])
        ok, wit = must_pass(oct_, entries, pushb, exits=list(oct_.returns()) + hs[:1])
        ctx.ob('R08.1', f'on_cancel_tasks|{"+".join(sorted(vs))}|notify worker', ok, f'a canceled task in state {sorted(vs)} is put on the CancelTasks list of its worker', oct_.loc(entries[0]))
    cancel_msg = [1 for o, b, bi, s in construct_sites(prog, T + 'messages::worker::ToWorkerMessage', 'CancelTasks') if o == oct_.path]
    ctx.ob('R08.1', 'on_cancel_tasks|CancelTasks message', bool(cancel_msg), 'the notification is a CancelTasks message', oct_.loc())
    # recursive consumers collected in the Some region and flow into remove_tasks_batched
    crc = oct_.call_blocks(TASK + '::collect_recursive_consumers')
    rtb = oct_.call_blocks(CORE + 'remove_tasks_batched')
    ctx.require(crc and rtb, 'R08.1: collect_recursive_consumers / remove_tasks_batched missing')
    setl = oct_._mutref_target(op_local(oct_.term[crc[0]]['args'][2])) if len(oct_.term[crc[0]]['args']) > 2 else None
    argl = op_local(oct_.term[rtb[0]]['args'][1])
    ok = setl is not None and setl in oct_.derived_from(argl)
    ctx.ob('R08.1', 'on_cancel_tasks|consumers flow into removal', ok, 'the set filled by collect_recursive_consumers is the set removed from the core', oct_.loc(rtb[0]))
    optk = [k for k, d in scrutinees(oct_, OPTION).items() if d['root_callee'] in reactor_table.FIND]
    ctx.require(optk, 'R08.1: find_task Option not found')
    check_arm_effect(ctx, 'R08.1', oct_, OPTION, {'Some'}, Effect('collect_consumers', callees={TASK + '::collect_recursive_consumers'}), 'must', optk[0],
                     'every known id contributes its recursive consumers', exits=list(oct_.returns()) + loop_headers_containing(oct_, crc[0])[:1])

    # an unknown id (already finished / forgotten) must not end the processing of the remaining ids
    for hname in ('on_cancel_tasks', 'on_retract_response'):
        hb_ = prog.body(REACTOR + hname)
        for k_, d_ in scrutinees(hb_, OPTION).items():
            if d_['root_callee'] not in reactor_table.FIND:
                continue
            ent_, reg_ = hb_.arm_entries(OPTION, {'None'}, k_)
            fsd_ = hb_.single_def(d_['root'])
            # the loop is the one that contains the lookup (a None arm that returns is not part of the natural loop any more)
            hs_ = loop_headers_containing(hb_, fsd_[0]) if fsd_ else []
            if not hs_ or not ent_:
                continue
            r_ = hb_.reach_from(ent_, avoid=hs_[:1])
            leaves = [x for x in hb_.returns() if x in r_]
            ctx.ob('R08.1', f'{hname}|unknown id continues the loop', not leaves and hs_[0] in hb_.reach_from(ent_),
                   f'{hname}: an id that is no longer known is skipped (continue); leaving the handler there abandons the remaining ids of the message', hb_.loc(ent_[0]))
    # ---- R08.2
    rt = prog.body(CORE + 'remove_task')
    qrem = set(rt.call_blocks(TQ + 'remove'))
    ctx.floor('R08.2', len(qrem), 1, 'TaskQueue::remove in Core::remove_task')
    rsc = [k for k in scrutinees(rt, TRS)]
    ctx.require(len(rsc) == 1, 'R08.2: scrutinee of remove_task')
    deq_states = set()
    for v in prog.variants(TRS):
        e, reg = rt.arm_entries(TRS, {v}, rsc[0])
        if reg & qrem:
            deq_states.add(v)
    ctx.note('remove_task_dequeues_under', sorted(deq_states))
    ctx.ob('R08.2', 'remove_task|dequeues Waiting', 'Waiting' in deq_states, 'Core::remove_task dequeues a Waiting task', rt.loc())
    # queue-resident states (derived): Waiting (add_ready_task) and the state process_retracted writes for ids that
    # check_dispose_prefill re-added to the ready queue
    pr = prog.body(REACTOR + 'process_retracted')
    written = set(v for bi, s, v, pl in state_writes(pr, TRS))
    cdp = prog.body(TQ + 'check_dispose_prefill')
    readds = bool(cdp.call_blocks(TQ + 'add_many'))
    ctx.ob('R08.2', 'derivation|dispose-prefill re-adds ids and process_retracted marks them', readds and written == {'Retracting'},
           f'check_dispose_prefill re-adds the prefill ids to the ready queue and process_retracted marks them {sorted(written)}: Retracting without redirect is queue-resident', pr.loc())
    queue_resident_extra = written if readds else set()
    for h, uses_remove_task_with_old_state in (('task_running', False), ('task_finished', False), ('task_failed', True), ('on_cancel_tasks', True)):
        b = prog.body(REACTOR + h)
        sc = pick_scrutinee(b, TRS, root_callees=reactor_table.FIND, last_field='state')
        for v in sorted(queue_resident_extra):
            entries, region = b.arm_entries(TRS, {v}, sc)
            ctx.require(region, f'R08.2: {h} has no arm for {v}')
            direct = set(_direct_effect_blocks(b, E_Q_REM)) & region
            ok = bool(direct) or (uses_remove_task_with_old_state and v in deq_states)
            ctx.ob('R08.2', f'{h}|{v}|dequeue', ok,
                   f'{h} x {v}: the task may still sit in the ready queue (no redirect) and must be dequeued, either in the arm or by Core::remove_task '
                   f'(which dequeues only under {sorted(deq_states)})', b.loc(entries[0]))
    # Prefilled handled by remove_prefilled rows (R08.1 / C05)

    # ---- R08.3
    cjs = [prog.bodies[p] for p in prog.with_closures(HQ + 'client::cancel_job') if prog.bodies[p].kind == 'coroutine']
    ctx.require(cjs, 'R08.3: cancel_job coroutine not found')
    cj = cjs[0]
    ctx.ob('R08.3', 'cancel_job|await-free', not cj.yields(), 'cancel_job contains no suspension point', cj.loc())
    ie = cj.call_blocks('alloc::vec::Vec::is_empty')
    a = cj.call_blocks(JOB + 'non_finished_task_ids')
    m_ = cj.call_blocks('tako::control::ServerRef::cancel_tasks')
    z = cj.call_blocks(JOB + 'set_cancel_state')
    ctx.require(a and m_ and z and ie, 'R08.3: anchors missing')
    from hqrules.templates import guard_edges, dominated_by_edges
    edges, calls = guard_edges(cj, 'alloc::vec::Vec::is_empty', False)
    for x in m_:
        ctx.ob('R08.3', 'cancel_job|cancel_tasks only if non-empty', dominated_by_edges(cj, x, edges, iteration_precise=False), 'nothing is sent to the core when no task is non-terminal', cj.loc(x))
    for x in z:
        ctx.ob('R08.3', 'cancel_job|set_cancel_state only if non-empty', dominated_by_edges(cj, x, edges, iteration_precise=False), 'no job event when no task is non-terminal (repeat cancel changes nothing)', cj.loc(x))
    scs = prog.body(JOB + 'set_cancel_state')
    edges2, _ = guard_edges(scs, 'alloc::vec::Vec::is_empty', False)
    evs = [bi for bi, t, c in scs.calls() if c and c.startswith(STREAMER) and bi in scs.reachable()]
    ctx.ob('R08.3', 'set_cancel_state|empty -> no event', all(dominated_by_edges(scs, e, edges2, iteration_precise=False) for e in evs) and bool(evs),
           'set_cancel_state emits nothing for an empty id list', scs.loc())
    # callers of the core cancel
    callers = set(o for o, b, bi in call_sites(prog, REACTOR + 'on_cancel_tasks') if not is_test_util(o))
    ctx.ob('R08.3', 'on_cancel_tasks|callers', callers == {'tako::control::ServerRef::cancel_tasks', REACTOR + 'task_failed'}, f'on_cancel_tasks is reached only from ServerRef::cancel_tasks and task_failed (observed {sorted(callers)})', None)

    # ---- R08.4
    adt = prog.adt(WSTATE_ADT)
    holders = [f for f, ty in adt['variants'][0]['fields'] if 'worker::task::Task' in ty or 'worker::task::RunningTask' in ty]
    ctx.floor('R08.4', len(holders), 2, 'WorkerState fields that hold tasks')
    ct = prog.body(T + 'worker::state::WorkerState::cancel_task')
    bodies = set(prog.with_closures(ct.path))
    # include local callees of cancel_task (one level, transitive through may_call)
    reach_bodies = set(bodies)
    for c in prog.may_call(ct.path):
        if c in prog.bodies:
            reach_bodies |= set(prog.with_closures(c))
    for f in holders:
        touched = any(b.path in reach_bodies for o, b, bi, st in field_read_sites(prog, WSTATE_ADT, f))
        ctx.ob('R08.4', f'cancel_task|touches {f}', touched,
               f'the CancelTasks handler must look into WorkerState.{f} (a container that can hold the canceled task)', ct.loc())
    # cancelling one task removes one task: no bulk removal on the backlog containers inside cancel_task
    BULK = ('::drain', '::truncate', '::clear', '::split_off', '::retain_mut', 'mem::take', 'Default>::default')
    bulk = []
    for bp_ in sorted(bodies):
        bb_ = prog.bodies[bp_]
        for bi_, t_, c_ in bb_.calls():
            if bi_ in bb_.reachable() and (c_ or '').endswith(('::drain', '::truncate', '::clear', '::split_off')):
                bulk.append((bb_, bi_, c_))
    ctx.ob('R08.4', 'cancel_task|removes only the canceled task', not bulk,
           f'cancel_task removes the canceled id with an id predicate (retain / remove(pos)); a range or bulk removal ({[c_.split("::")[-1] for b_, i_, c_ in bulk]}) also drops other pre-sent tasks, which the server still holds as Prefilled on this worker and which then never start', bulk[0][0].loc(bulk[0][1]) if bulk else ct.loc())
    # a retain on the backlog MAP (whole per-request lists) may only drop lists that became empty: its closure returns
    # !is_empty(); returning is_empty() keeps the empty lists and throws away every other pre-sent task
    for bp_ in sorted(bodies):
        bb_ = prog.bodies[bp_]
        for bi_, t_, c_ in bb_.calls():
            if bi_ in bb_.reachable() and (c_ or '').endswith(('HashMap::retain', 'Map::retain', 'BTreeMap::retain')):
                cl_ = None
                for a_ in t_['args'][1:]:
                    for x_ in (bb_.derived_from(op_local(a_), through_mutation=False) if op_local(a_) is not None else ()):
                        for d_ in bb_.defs().get(x_, ()):
                            if d_[1] == 'a' and d_[2]['rv'][0] == 'agg' and d_[2]['rv'][1][0] == 'closure':
                                cl_ = prog.bodies.get(norm(d_[2]['rv'][1][1]))
                okp = True
                if cl_ is not None:
                    ie = [x for x in cl_.call_blocks(lambda c: c.endswith('::is_empty'))]
                    for x in ie:
                        dl = cl_.term[x]['d'][0]
                        if cl_.term[x]['d'] == [0, []]:
                            okp = False
                        for y in cl_.reachable():
                            for st in cl_.stmts(y):
                                if st['k'] == 'a' and st['p'] == [0, []] and st['rv'][0] == 'use' and op_local(st['rv'][1]) == dl:
                                    okp = False
                ctx.ob('R08.4', 'cancel_task|map retain keeps non-empty lists', okp, 'a retain over the backlog map keeps a list iff it is NOT empty (never the other way round)', bb_.loc(bi_))
    pwm = prog.body(T + 'worker::rpc::process_worker_message')
    TWM = T + 'messages::worker::ToWorkerMessage'
    cc = pwm.call_blocks(ct.path)
    ctx.require(cc, 'R08.4: cancel_task call in process_worker_message')
    vs = variants_at(pwm, TWM, cc[0])
    ctx.ob('R08.4', 'CancelTasks -> cancel_task for every id', vs is not None and set(vs) == {'CancelTasks'} and bool(loop_headers_containing(pwm, cc[0])),
           f'the CancelTasks message cancels every listed id (loop) (observed arm {sorted(vs) if vs else vs})', pwm.loc(cc[0]))
    guards_ = []
    for x in pwm.reachable():
        si_ = pwm.switch_info(x)
        if si_ and si_['kind'] == 'bool' and pwm.dominates(x, cc[0]) and (variants_at(pwm, TWM, x) or set()) == {'CancelTasks'}:
            for y in pwm.derived_from(si_['local']):
                for d_ in pwm.defs().get(y, ()):
                    if d_[1] == 'call':
                        guards_.append((callee_decl(d_[2]) or '').split('::')[-1])
    ctx.ob('R08.4', 'CancelTasks|handled unconditionally', not guards_, f'no condition guards the handling of a CancelTasks message (observed guards: {sorted(set(guards_))}); an idle worker can still hold the task in its backlog', pwm.loc(cc[0]))
    # the rpc handler dispatches CancelTasks to cancel_task
    callers = set(o for o, b, bi in call_sites(prog, ct.path) if not is_test_util(o))
    ctx.ob('R08.4', 'cancel_task|called from worker message loop', any('worker::rpc' in c for c in callers), f'cancel_task is driven by the worker message handler (callers {sorted(callers)})', None)

    # ---- R08.7 a removed (canceled) task leaves the ready queue wherever it sits
    ctx.rule('R08.7', 'TaskQueue::remove: the task is taken out of the prefill set or out of the priority queue: the early return of the prefill branch is taken only when the set really contained the task (otherwise a canceled ready task of the prefill priority stays queued and is scheduled after it was forgotten)')
    tqr = prog.body(T + 'scheduler::taskqueue::TaskQueue::remove')
    SETREM = lambda c: c.endswith(('HashSet::remove', 'Set::remove', 'BTreeSet::remove'))
    pr_ = [bi for bi in tqr.call_blocks(SETREM) if 'prefill' in local_field_sources(tqr, op_local(tqr.term[bi]['args'][0]), through_mutation=False)]
    qe_ = [bi for bi, t, c in tqr.calls() if bi in tqr.reachable() and (c or '').endswith(('BTreeMap::entry', 'BTreeMap::get_mut', 'BTreeMap::remove')) and 'queue' in local_field_sources(tqr, op_local(t['args'][0]), through_mutation=False)]
    ctx.require(pr_ and qe_, 'R08.7: prefill-set remove / queue lookup in TaskQueue::remove')
    t_edges = set()
    for bi in pr_:
        dl = tqr.term[bi]['d'][0]
        for sb, ts, fs in bool_uses(tqr, dl):
            if ts != fs:
                t_edges.add((sb, ts))
    skipped = [r for r in tqr.returns() if r in tqr.reach_from([0], avoid=qe_, avoid_edges=t_edges)]
    ctx.ob('R08.7', 'TaskQueue::remove|queue part skipped only after a successful prefill-set removal', bool(t_edges) and not skipped,
           'every path that returns without touching the priority queue passes the true edge of prefill_set.remove(task)', tqr.loc(pr_[0]))
