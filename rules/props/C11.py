"""C11 — identifiers are never reused across restarts."""
from hqrules.core import FailClosed, callee_of, callee_decl, op_local, op_place, place_fields, norm, op_const
from hqrules.templates import (effect_blocks, must_pass, state_writes, variants_at, call_sites, construct_sites, Effect,
                               loop_headers_containing, owner_fn, scrutinees, guard_edges, dominated_by_edges,
                               local_field_sources, binops, operand_fields, field_write_sites, field_read_sites)
from .common import *
from .journal_common import *
from .C10 import _derives_named

EXPLANATION = ('Structural conditions of C11: the three high-water marks of StateRestorer are only ever written as max(self, x); every replay '
               'arm that introduces an id reaches such a write; the counter getters return mark + 1; the restored counters are plumbed into '
               'the live id issuers (State.job_id_counter, Core.worker_id_counter, AutoAllocState queue counter, ServerInfo.server_uid); the '
               'issuers increment on every path and nobody else writes them.')
NOT_DECIDED = ['ids that a pruned journal no longer mentions (outside the statement); nothing numeric is needed beyond the shapes checked']
# R10.3 on the id-issuing arms: "ids seen by users before the restart never come to denote a different object" needs the
# record that mentions a fresh job / queue id to be on disk before the id is shown to the user (otherwise a crash in
# between restores counters that never saw the id)
RELATED = {'C12': ['R12.1~kept unconditionally', 'R12.1~^(JobOpen|Submit)\\|job$', 'R12.3', 'R12.5'],
           'C10': ['R10.3~\\|(OpenJob|Submit|Created)\\|', 'R10.3~flush_journal\\|awaits']}
ASSUMPTIONS = []
MARKS = ('max_job_id', 'max_worker_id', 'max_queue_id')


def _is_max_write(b, bi, st, field):
    """the stored value is the result of Ord::max / cmp::max whose receiver reads the same field"""
    if st.get('k') == 'call':
        t = st
    else:
        l = op_local(st['rv'][1]) if st['rv'][0] == 'use' else None
        sd = b.single_def(l) if l is not None else None
        t = sd[2] if sd and sd[1] == 'call' else None
    if t is None:
        return False
    c = callee_decl(t) or ''
    if not (c.endswith('cmp::Ord::max') or c.endswith('cmp::max')):
        return False
    return any(field in (operand_fields(b, a)) for a in t['args'])


def run(ctx):
    prog = ctx.prog
    ctx.rule('R11.1', 'every write to StateRestorer.{max_job_id,max_worker_id,max_queue_id} has the form max(self.field, x)')
    ctx.rule('R11.2', 'replay arms that introduce an id reach the corresponding high-water write; ServerStart records the server uid')
    ctx.rule('R11.3', 'job_id_counter / worker_id_counter / queue_id_counter return mark + 1')
    ctx.rule('R11.4', 'plumbing: restored counters and uid reach the live issuers')
    ctx.rule('R11.5', 'issuers (new_job_id, Core::new_worker_id, IdCounter::increment) advance on every path and are the only writers; revert_to_job_id has no caller')

    # ---- R11.1
    n = 0
    for f in MARKS:
        for o, b, bi, st, kind in field_write_sites(prog, SR, f):
            if kind != 'write' or is_test_util(o):
                continue
            n += 1
            ctx.ob('R11.1', f'{o.split("::")[-1]}|{f}', _is_max_write(b, bi, st, f), f'{f} is written as max({f}, _)', b.loc(bi, st))
    ctx.floor('R11.1', n, 1, 'writes to high-water marks')

    # ---- R11.2
    rw = replay_writes(prog)
    ctx.note('replay_writes', {k: sorted(v) for k, v in rw.items() if v})
    need = {'Submit': 'max_job_id', 'JobOpen': 'max_job_id', 'WorkerConnected': 'max_worker_id', 'AllocationQueueCreated': 'max_queue_id', 'ServerStart': 'server_uid'}
    for ev, f in need.items():
        ctx.ob('R11.2', f'{ev}|{f}', f in rw.get(ev, set()), f'replay of {ev} updates {f}', prog.body(LEF).loc())
    # ... on every path of the arm (an early `continue` / let-else in front of the mark update skips it for some records)
    lef11 = prog.body(LEF)
    from hqrules.templates import Effect as _Eff, effect_blocks as _eb, must_pass as _mp, loop_headers_containing as _lh
    for ev, f in (('JobOpen', 'max_job_id'), ('WorkerConnected', 'max_worker_id'), ('AllocationQueueCreated', 'max_queue_id')):
        ent, reg = lef11.arm_entries(EP, {ev})
        wb = _eb(prog, lef11, _Eff('mark.' + f, writes={(SR, f)}))
        wb = [x for x in wb if x in reg] or sorted(wb)
        hs = _lh(lef11, ent[0]) if ent else []
        ok, _w = _mp(lef11, ent, wb, exits=hs[:1] + list(lef11.returns())) if ent and wb else (False, None)
        ctx.ob('R11.2', f'{ev}|{f}|on every path', ok, f'every path through the {ev} replay arm updates {f} (the id was issued whatever else the record says)', lef11.loc(ent[0]) if ent else lef11.loc())
    for ev in ('JobCompleted', 'AllocationQueueRemoved', 'WorkerLost'):
        bad = set(MARKS) & rw.get(ev, set())
        ctx.ob('R11.2', f'{ev}|no mark write', not bad, f'replay of {ev} (a removal) leaves the high-water marks alone', prog.body(LEF).loc())

    # ---- R11.3
    for getter, f in (('job_id_counter', 'max_job_id'), ('worker_id_counter', 'max_worker_id'), ('queue_id_counter', 'max_queue_id')):
        b = prog.body(SR + '::' + getter)
        ok = False
        for bi, s, op, a, c in binops(b):
            if op.startswith('Add') and any(o[0] == 'k' and '1_' in o[1] for o in (a, c)) and f in (operand_fields(b, a) | operand_fields(b, c)):
                ok = True
        if not ok:
            # `self.max_queue_id + 1` on a newtype goes through Add::add
            for bi, t, cal in b.calls():
                if (callee_decl(t) or '').endswith('ops::arith::Add::add') and any(a[0] == 'k' and '1_' in a[1] for a in t['args']) and \
                        any(f in operand_fields(b, a) for a in t['args'] if a[0] != 'k'):
                    ok = True
        ctx.ob('R11.3', f'{getter}|{f}+1', ok, f'{getter} returns {f} + 1', b.loc())

    # ---- R11.4
    ss = coroutine_of(prog, BOOT + 'start_server')
    ini = ss.call_blocks(BOOT + 'initialize_server')
    ctx.require(ini, 'R11.4: initialize_server call')
    t = ss.term[ini[0]]

    def closure_calls(b, l, target):
        for x in b.derived_from(l):
            for d in b.defs().get(x, ()):
                if d[1] == 'a' and d[2]['rv'][0] == 'agg' and d[2]['rv'][1][0] == 'closure':
                    cb = prog.bodies.get(norm(d[2]['rv'][1][1]))
                    if cb and cb.call_blocks(target):
                        return True
                if d[1] == 'call' and callee_of(d[2]) == target:
                    return True
        return False
    ctx.ob('R11.4', 'start_server|worker_id_counter -> initialize_server', closure_calls(ss, op_local(t['args'][2]), SR + '::worker_id_counter'), 'arg 3 of initialize_server derives from worker_id_counter()', ss.loc(ini[0]))
    ctx.ob('R11.4', 'start_server|queue_id_counter -> initialize_server', closure_calls(ss, op_local(t['args'][3]), SR + '::queue_id_counter'), 'arg 4 of initialize_server derives from queue_id_counter()', ss.loc(ini[0]))
    rs = ss.call_blocks(HQ + 'state::State::restore_state')
    ctx.ob('R11.4', 'start_server|restore_state', bool(rs), 'State::restore_state is applied when a journal was loaded', ss.loc(rs[0]) if rs else ss.loc())
    rsb = prog.body(HQ + 'state::State::restore_state')
    w = [(bi, st) for bi, st, pl, fs in rsb.field_writes() if fs and fs[-1][0] == 'job_id_counter']
    okj = bool(w) and bool(rsb.call_blocks(SR + '::job_id_counter'))
    ctx.ob('R11.4', 'restore_state|job_id_counter', okj, 'State.job_id_counter := restorer.job_id_counter()', rsb.loc())
    uid = ss.call_blocks(SR + '::take_server_uid')
    ctx.require(uid, 'R11.4: take_server_uid not called')
    wu = [(bi, st) for bi, st, pl, fs in ss.field_writes() if fs and fs[-1][0] == 'server_uid']
    oku = any(ss.term[uid[0]]['d'][0] in ss.derived_from(_stored_local(ss, st)) for bi, st in wu)
    ctx.ob('R11.4', 'start_server|server_uid kept', oku, 'server_cfg.server_uid := restored uid (when not empty)', ss.loc(uid[0]))
    # the restored uid overrides the configured one: the write is guarded by !is_empty() only
    for bi, st in wu:
        e_none, cn = guard_edges(ss, 'core::option::Option::is_none', True)
        e_some, cs_ = guard_edges(ss, 'core::option::Option::is_some', False)
        guarded = any(dominated_by_edges(ss, bi, {e}, False) for e in (e_none | e_some))
        ctx.ob('R11.4', 'start_server|restored uid wins over configuration', not guarded,
               'the journal uid replaces server_cfg.server_uid unconditionally (apart from the empty-uid test); keeping a configured uid changes the server identity of an existing journal', ss.loc(bi, st))
    isv = coroutine_of(prog, BOOT + 'initialize_server')
    st_ = isv.call_blocks('tako::internal::server::start::server_start') or isv.call_blocks(lambda c: c.endswith('::server_start'))
    ctx.require(st_, 'R11.4: server_start call')
    tt = isv.term[st_[0]]
    okw = any(_derives_named(isv, op_local(a), 'worker_id_initial_value', 'ids::WorkerId') for a in tt['args'] if op_local(a) is not None)
    ctx.ob('R11.4', 'initialize_server|worker id -> server_start', okw, 'server_start receives worker_id_initial_value', isv.loc(st_[0]))
    cas = isv.call_blocks(lambda c: c.endswith('::create_autoalloc_service'))
    ctx.require(cas, 'R11.4: create_autoalloc_service call')
    okq = any(_derives_named(isv, op_local(a), 'queue_id_initial_value', 'u32') for a in isv.term[cas[0]]['args'] if op_local(a) is not None)
    ctx.ob('R11.4', 'initialize_server|queue id -> autoalloc', okq, 'create_autoalloc_service receives queue_id_initial_value', isv.loc(cas[0]))
    # tako: server_start -> CoreRef::new -> Core.worker_id_counter
    corenew = [b for b in prog.find_bodies(r'^tako::internal::server::core::<impl tako::internal::common::wrapped::WrappedRcRefCell>::new$')]
    ctx.require(corenew, 'R11.4: CoreRef::new')
    cn = corenew[0]
    okc = False
    for o, b, bi, s in construct_sites(prog, T + 'server::core::Core'):
        if b.path == cn.path:
            names = s['rv'][1][3]
            if 'worker_id_counter' in names:
                l = op_local(s['rv'][2][names.index('worker_id_counter')])
                if l is not None and set(range(1, cn.argc + 1)) & cn.derived_from(l):
                    okc = True
    ctx.ob('R11.4', 'CoreRef::new|worker_id_counter from parameter', okc, 'Core.worker_id_counter is initialised from the constructor argument', cn.loc())
    aas = prog.body(HQ + 'autoalloc::state::AutoAllocState::new')
    okq2 = bool(aas.call_blocks(lambda c: c.endswith('IdCounter::new'))) and 1 in aas.derived_from(op_local(aas.term[aas.call_blocks(lambda c: c.endswith('IdCounter::new'))[0]]['args'][0]))
    ctx.ob('R11.4', 'AutoAllocState::new|counter from parameter', okq2, 'the queue id counter starts at the constructor argument', aas.loc())

    # ---- R11.5
    nj = prog.body(HQ + 'state::State::new_job_id')
    add = [bi for bi, s, op, a, c in binops(nj) if op.startswith('Add') and any(o[0] == 'k' and '1_' in o[1] for o in (a, c))]
    w = [bi for bi, st, pl, fs in nj.field_writes() if fs and fs[-1][0] == 'job_id_counter']
    ok, _ = must_pass(nj, [0], w)
    ctx.ob('R11.5', 'new_job_id|+1 on every path', bool(add) and ok, 'new_job_id advances the counter on every path', nj.loc())
    STATE = HQ + 'state::State'
    wr = set(o for o, b, bi, st, k in field_write_sites(prog, STATE, 'job_id_counter') if k == 'write' and not is_test_util(o))
    ctx.ob('R11.5', 'job_id_counter|writers', wr <= {nj.path, HQ + 'state::State::restore_state', HQ + 'state::State::revert_to_job_id'}, f'writers of State.job_id_counter: {sorted(x.split("::")[-1] for x in wr)}', None)
    rv = set(o for o, b, bi in call_sites(prog, HQ + 'state::State::revert_to_job_id') if not is_test_util(o))
    ctx.ob('R11.5', 'revert_to_job_id|no caller', not rv, f'State::revert_to_job_id (which lowers the counter) has no caller (observed {sorted(rv)})', None)
    nw = prog.body(CORE + 'new_worker_id')
    w = [bi for bi, st, pl, fs in nw.field_writes() if fs and fs[-1][0] == 'worker_id_counter']
    ok, _ = must_pass(nw, [0], w)
    ctx.ob('R11.5', 'new_worker_id|advances', ok and bool(w), 'Core::new_worker_id advances the counter on every path', nw.loc())
    wr = set(o for o, b, bi, st, k in field_write_sites(prog, T + 'server::core::Core', 'worker_id_counter') if k == 'write' and not is_test_util(o))
    ctx.ob('R11.5', 'worker_id_counter|writers', wr <= {nw.path}, f'writers of Core.worker_id_counter: {sorted(x.split("::")[-1] for x in wr)}', None)
    ic = [b for b in prog.find_bodies(r'IdCounter::increment$')]
    ctx.require(ic, 'R11.5: IdCounter::increment')
    icb = ic[0]
    w = [bi for bi, st, pl, fs in icb.field_writes() if fs]
    ok, _ = must_pass(icb, [0], w)
    add = [1 for bi, s, op, a, c in binops(icb) if op.startswith('Add')]
    ctx.ob('R11.5', 'IdCounter::increment|advances', ok and bool(w) and bool(add), 'IdCounter::increment advances on every path', icb.loc())
    AAS = HQ + 'autoalloc::state::AutoAllocState'
    wq = set(o for o, b, bi, st, k in field_write_sites(prog, AAS, 'queue_id_counter') if not is_test_util(o))
    ctx.ob('R11.5', 'queue_id_counter|writers', wq <= {AAS + '::new', AAS + '::create_id'}, f'the queue id counter is only initialised (new) and advanced (create_id -> IdCounter::increment); re-seeding it elsewhere can move it backwards (writers: {sorted(x.split("::")[-1] for x in wq)})', None)
    # uid generated only when none was restored
    gen = [(o, b, bi) for o, b, bi in call_sites(prog, 'hyperqueue::server::bootstrap::generate_server_uid') if not is_test_util(o)] if (HQ + 'bootstrap::generate_server_uid') in prog.bodies else []
    ctx.note('uid_generators', [o for o, b, bi in gen])


def _stored_local(b, st):
    if st.get('k') == 'call':
        return st['d'][0]
    return op_local(st['rv'][1]) if st['rv'][0] == 'use' else st['p'][0]
