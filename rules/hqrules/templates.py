"""Rule templates (DESIGN 2.3) built on core.Program / core.Body."""
from collections import defaultdict, deque

from .core import (FailClosed, callee_decl, callee_of, norm, op_const, op_local, op_place, place_fields,
                   place_key, rv_operands, rv_places, last_seg)


# --------------------------------------------------------------------------- effects

class Effect:
    """A named bookkeeping effect.  `callees`: any call to one of these paths.
    `field_calls`: [(callee_set, field_name)] a call to one of callee_set whose receiver (arg 0)
    derives from a place containing field `field_name`.  `writes`: [(adt, field)] an assignment through a
    place that ends at that field.  `variant_writes`: [(enum, variant)] assignment of an aggregate of
    that variant to a place of that enum type (state write)."""

    def __init__(self, name, callees=(), field_calls=(), writes=(), constructs=()):
        self.name = name
        self.callees = set(callees)
        self.field_calls = [(set(c), f) for c, f in field_calls]
        self.writes = set(writes)
        self.constructs = set(constructs)      # (adt, variant) aggregates

    def __repr__(self):
        return f'Effect({self.name})'


def local_field_sources(body, l, through_mutation=True):
    """Field names (name, adt) appearing in the places the value of local l derives from."""
    out = set()
    if l is None:
        return out
    for x in body.derived_from(l, through_mutation=through_mutation):
        for bi, kind, payload in body.defs().get(x, ()):  # defining statements
            if kind in ('a', 'pw'):
                for pl in rv_places(payload['rv']):
                    for name, adt, var in place_fields(pl):
                        out.add(name)
                rv = payload['rv']
                if rv[0] == 'agg' and rv[1][0] in ('closure', 'coroutine', 'coroutine_closure'):
                    # fields read inside the closure body count as sources of the closure value
                    for cp in body.prog.with_closures(norm(rv[1][1])):
                        cb = body.prog.bodies.get(cp)
                        if cb is None:
                            continue
                        for bj in cb.reachable():
                            for st in cb.stmts(bj):
                                if st['k'] == 'a':
                                    for pl in rv_places(st['rv']):
                                        for name, adt, var in place_fields(pl):
                                            if adt != '{upvar}':
                                                out.add(name)
        # debug-info: a local that *is* an upvar/field alias
    return out


def assembled_field_sources(body, l):
    """Field names feeding the value of local l, where l may be a container assembled in place: the plain (non-mutation)
    sources of l plus the plain sources of the other arguments of every call that takes `&mut` to a local l derives from
    (push / extend / extend_from_slice / write ...).  Narrower than derived_from(through_mutation=True), which also follows
    `&mut self` receivers of unrelated calls."""
    if l is None:
        return set()
    roots = body.derived_from(l, through_mutation=False)
    out = set(local_field_sources(body, l, through_mutation=False))
    for bi, t, c in body.calls():
        if bi not in body.reachable() or not t['args']:
            continue
        a0 = op_local(t['args'][0])
        if a0 is None:
            continue
        tgt = body._mutref_target(a0)
        if tgt is not None and tgt in roots:
            for a in t['args'][1:]:
                la = op_local(a)
                if la is not None:
                    out |= local_field_sources(body, la, through_mutation=False)
    return out


def _direct_effect_blocks(body, eff):
    out = set()
    reach = body.reachable()
    for bi in reach:
        t = body.term[bi]
        if t and t['k'] == 'call':
            c = callee_of(t)
            d = callee_decl(t)
            if c in eff.callees or d in eff.callees:
                out.add(bi)
            else:
                for cs, field in eff.field_calls:
                    if (c in cs or d in cs) and t['args']:
                        l = op_local(t['args'][0])
                        if l is not None and field in local_field_sources(body, l):
                            out.add(bi)
            if eff.writes and t['d'][1]:
                fs = place_fields(t['d'])
                if fs and (fs[-1][1], fs[-1][0]) in eff.writes:
                    out.add(bi)
        for s in body.stmts(bi):
            if s['k'] != 'a':
                continue
            if eff.writes and s['p'][1]:
                fs = place_fields(s['p'])
                if fs and (fs[-1][1], fs[-1][0]) in eff.writes:
                    out.add(bi)
            if eff.constructs and s['rv'][0] == 'agg' and s['rv'][1][0] == 'adt':
                if (norm(s['rv'][1][1]), s['rv'][1][2]) in eff.constructs:
                    out.add(bi)
    return out


def bodies_with_effect(prog, eff):
    """Set of body paths that (transitively through local calls and nested closures) may perform eff."""
    cache = prog.__dict__.setdefault('_effcache', {})
    if eff.name in cache:
        return cache[eff.name]
    direct = set()
    for p, b in prog.bodies.items():
        if _direct_effect_blocks(b, eff):
            direct.add(p)
    # reverse call graph over local bodies (incl. closure parent edge: parent "calls" its closures)
    rev = defaultdict(set)
    for p, b in prog.bodies.items():
        if b.parent:
            rev[p].add(b.parent)
        reach = b.reachable()
        for bi, t, c in b.calls():
            if bi not in reach:
                continue
            for tg in prog.call_targets(t):
                rev[tg].add(p)
    has = set(direct)
    dq = deque(direct)
    while dq:
        x = dq.popleft()
        for y in rev.get(x, ()):
            if y not in has:
                has.add(y)
                dq.append(y)
    cache[eff.name] = has
    return has


def effect_blocks(prog, body, eff):
    """Blocks of body that perform eff directly or through a call (CHA, closures passed as args)."""
    key = ('effblocks', body.path, eff.name)
    cache = prog.__dict__.setdefault('_effbcache', {})
    if key in cache:
        return cache[key]
    has = bodies_with_effect(prog, eff)
    out = set(_direct_effect_blocks(body, eff))
    reach = body.reachable()
    clos_of_local = {}
    for bi in reach:
        for s in body.stmts(bi):
            if s['k'] == 'a' and s['rv'][0] == 'agg' and s['rv'][1][0] in ('closure', 'coroutine', 'coroutine_closure'):
                clos_of_local[s['p'][0]] = norm(s['rv'][1][1])
    for bi, t, c in body.calls():
        if bi not in reach or bi in out:
            continue
        if any(tg in has for tg in prog.call_targets(t)):
            out.add(bi)
            continue
        if clos_of_local:
            for a in t['args']:
                l = op_local(a)
                if l is None:
                    continue
                if any(clos_of_local.get(sl) in has for sl in body.derived_from(l) if sl in clos_of_local):
                    out.add(bi)
                    break
    cache[key] = out
    return out


# --------------------------------------------------------------------------- path rules

def must_pass(body, srcs, through, exits=None, avoid_edges=()):
    """True iff every path from (after) each block in srcs to an exit passes through a block in
    `through`.  exits default: Return blocks.  Paths that diverge (panic) satisfy vacuously.
    Returns (ok, witness_exit_block)."""
    exits = body.returns() if exits is None else exits
    through = set(through)
    for s in srcs:
        if s in through:
            continue
        r = body.reach_after(s, avoid=through, avoid_edges=avoid_edges)
        for e in exits:
            if e in r and e not in through:
                return False, (s, e)
    return True, None


def region_must(body, entries, region, through):
    """Every path from a region entry to a region exit (edge leaving region) or Return passes `through`.
    Returns (ok, witness)."""
    through = set(through)
    region = set(region)
    for s in entries:
        if s in through:
            continue
        seen = {s}
        dq = deque([s])
        while dq:
            b = dq.popleft()
            if b in through:
                continue
            t = body.term[b]
            if t and t['k'] == 'ret':
                return False, (s, b)
            succs = body.succ[b]
            for x in succs:
                if x not in region:
                    # leaving the region without the effect (only counts if x can reach a return)
                    if x in body.can_return():
                        return False, (s, b)
                    continue
                if x not in seen:
                    seen.add(x)
                    dq.append(x)
    return True, None


def owner_fn(prog, path, _depth=0):
    """Outermost non-closure ancestor of a body path.  A helper function that is not part of the frozen function set
    (tables/known_functions.json) and has a single call site is attributed to the function that calls it (it is inlined
    there by Program.body): who-may-call / who-may-write rules stay silent on an "extract helper" refactoring."""
    b = prog.bodies.get(path)
    while b is not None and b.parent and b.parent in prog.bodies:
        b = prog.bodies[b.parent]
    if b is None:
        return path
    if _depth < 3 and b.kind in ('fn', 'method') and b.path not in prog.known_functions():
        sites = sorted(set((x.path, bi) for x, bi in prog.callers_of(b.path) if '::tests::' not in x.path))
        if len(sites) == 1 and not prog.fn_refs().get(b.path):
            return owner_fn(prog, sites[0][0], _depth + 1)
    return b.path


def call_sites(prog, callee):
    """[(owner fn path, Body, block)] of all call sites (resolved or declared) of `callee`."""
    out = []
    for b, bi in prog.callers_of(callee):
        hb, hbi = prog.host_site(b, bi)
        out.append((owner_fn(prog, hb.path), hb, hbi))
    return out


def construct_sites(prog, adt, variant=None):
    """[(owner fn, Body, block, stmt)] of Aggregate constructions of adt(::variant)."""
    cache = prog.__dict__.setdefault('_aggidx', None)
    if cache is None:
        cache = defaultdict(list)
        for p, b in prog.analysis_bodies():
            for bi in b.reachable():
                for s in b.stmts(bi):
                    if s['k'] == 'a' and s['rv'][0] == 'agg' and s['rv'][1][0] == 'adt':
                        cache[norm(s['rv'][1][1])].append((b, bi, s))
        prog._aggidx = cache
    out = []
    for b, bi, s in cache.get(adt, ()):  # noqa
        if variant is None or s['rv'][1][2] == variant:
            out.append((owner_fn(prog, b.path), b, bi, s))
    return out


def field_write_sites(prog, adt, field):
    """[(owner fn, Body, block, stmt_or_term)] of writes whose place ends at adt.field (assignments and
    call destinations), plus `&mut` borrows of the field that are passed to calls (possible writers)."""
    idx = prog.__dict__.setdefault('_fwidx', None)
    if idx is None:
        idx = defaultdict(list)
        for p, b in prog.analysis_bodies():
            for bi, st, pl, fs in b.field_writes():
                if fs:
                    idx[(fs[-1][1], fs[-1][0])].append((b, bi, st, 'write'))
            for bi in b.reachable():
                for s in b.stmts(bi):
                    if s['k'] == 'a' and s['rv'][0] == 'ref' and s['rv'][1] == 'mut':
                        fs = place_fields(s['rv'][2])
                        if fs:
                            idx[(fs[-1][1], fs[-1][0])].append((b, bi, s, 'mutref'))
        prog._fwidx = idx
    return [(owner_fn(prog, b.path), b, bi, st, kind) for b, bi, st, kind in idx.get((adt, field), ())]


def field_read_sites(prog, adt, field):
    """[(owner fn, Body, block, stmt)] where a place mentioning adt.field is read (any rvalue / call arg)."""
    idx = prog.__dict__.setdefault('_fridx', None)
    if idx is None:
        idx = defaultdict(list)
        for p, b in prog.analysis_bodies():
            for bi in b.reachable():
                for s in b.stmts(bi):
                    if s['k'] == 'a':
                        for pl in rv_places(s['rv']):
                            for name, a, v in place_fields(pl):
                                idx[(a, name)].append((b, bi, s))
                t = b.term[bi]
                if t and t['k'] == 'call':
                    for a_ in t['args']:
                        pl = op_place(a_)
                        if pl:
                            for name, a, v in place_fields(pl):
                                idx[(a, name)].append((b, bi, t))
        prog._fridx = idx
    return [(owner_fn(prog, b.path), b, bi, st) for b, bi, st in idx.get((adt, field), ())]


# --------------------------------------------------------------------------- typestate helpers

def state_writes(body, enum, field=None):
    """Assignments of a known variant to a place of enum type: yields (block, stmt, new_variant, place).
    Recognises `place = move tmp` with `tmp = Aggregate(enum::V)` and direct aggregates / SetDiscriminant."""
    out = []
    aggs = {}
    for bi in body.reachable():
        for s in body.stmts(bi):
            if s['k'] == 'a' and s['rv'][0] == 'agg' and s['rv'][1][0] == 'adt' and norm(s['rv'][1][1]) == enum:
                if s['p'][1]:
                    out.append((bi, s, s['rv'][1][2], s['p']))
                else:
                    aggs[s['p'][0]] = s['rv'][1][2]
    for bi in body.reachable():
        for s in body.stmts(bi):
            if s['k'] == 'a' and s['p'][1] and s['rv'][0] == 'use':
                l = op_local(s['rv'][1])
                if l in aggs:
                    fs = place_fields(s['p'])
                    if field is None or (fs and fs[-1][0] == field):
                        out.append((bi, s, aggs[l], s['p']))
            elif s['k'] == 'sd':
                out.append((bi, s, s['v'], s['p']))
    return out


def variants_at(body, enum, bi, scrut_key=None):
    """Possible old-state variants of the (single) scrutinee at entry of block bi."""
    flows = body.variant_flow(enum)
    res = None
    for key, st in flows.items():
        if scrut_key is not None and key != scrut_key:
            continue
        vs = st.get(bi)
        if vs is None:
            continue
        res = set(vs) if res is None else (res & set(vs))
    return res


def diverging_blocks(body):
    """Reachable blocks from which no Return is reachable (they end in a panic/abort)."""
    cr = body.can_return()
    return set(b for b in body.reachable() if b not in cr)


def arm_outcome(body, enum, variant, scrut_key=None):
    """'diverges' if every path of the arm region for {variant} ends in a panic; 'handled' otherwise;
    'absent' if no block is guarded by exactly that variant set."""
    entries, reg = body.arm_entries(enum, {variant}, scrut_key)
    if not reg:
        return 'absent'
    cr = body.can_return()
    if any(e in cr for e in entries):
        return 'handled'
    return 'diverges'


# --------------------------------------------------------------------------- loops / guard dominance

def loop_headers_containing(body, c):
    """Headers of natural loops that contain block c, innermost first."""
    heads = []
    reach = body.reachable()
    for u in reach:
        for h in body.succ[u]:
            if body.dominates(h, u):
                # natural loop of back edge u->h: h dominates c and c reaches u without leaving via h
                if body.dominates(h, c) and (c == u or u in body.reach_from([c], avoid=[h])):
                    if h not in heads:
                        heads.append(h)
    # innermost = dominated by all others
    heads.sort(key=lambda h: -sum(1 for g in heads if body.dominates(g, h)))
    return heads


def bool_uses(body, l):
    """Switch blocks whose condition derives from bool local l through use / Not:
    [(switch block, succ taken when l is true, succ taken when l is false)]."""
    out = []
    # forward: locals derived from l by use/Not with polarity
    pol = {l: True}
    changed = True
    while changed:
        changed = False
        for bi in body.reachable():
            for s in body.stmts(bi):
                if s['k'] != 'a' or s['p'][1]:
                    continue
                rv = s['rv']
                src = None
                flip = False
                if rv[0] == 'use':
                    src = op_local(rv[1])
                elif rv[0] == 'un' and rv[1] == 'Not':
                    src = op_local(rv[2])
                    flip = True
                if src in pol and s['p'][0] not in pol:
                    pol[s['p'][0]] = pol[src] != flip
                    changed = True
    for bi in body.reachable():
        si = body.switch_info(bi)
        if si and si['kind'] == 'bool' and si['local'] in pol:
            if pol[si['local']]:
                out.append((bi, si['true_succ'], si['false_succ']))
            else:
                out.append((bi, si['false_succ'], si['true_succ']))
    return out


def guard_edges(body, pred_callees, polarity=True, receiver_key=None):
    """Edges (S, succ) taken when a call to one of pred_callees returned `polarity`.
    If receiver_key is given only calls whose receiver (arg0) canonicalises to that place key count."""
    if isinstance(pred_callees, str):
        pred_callees = {pred_callees}
    edges = set()
    calls = []
    for bi, t, c in body.calls():
        if bi not in body.reachable():
            continue
        if c in pred_callees or callee_decl(t) in pred_callees:
            if receiver_key is not None:
                ap = op_place(t['args'][0]) if t['args'] else None
                if ap is None or receiver_root_key(body, ap) != receiver_key:
                    continue
            calls.append(bi)
            if not t['d'][1]:
                for sb, ts, fs in bool_uses(body, t['d'][0]):
                    if ts != fs:
                        edges.add((sb, ts if polarity else fs))
        elif polarity and receiver_key is None and (c or '').endswith(('Option::is_some_and', 'Result::is_ok_and')) and len(t['args']) > 1:
            # `opt.is_some_and(|x| pred(x))` is true only if the closure ran and pred returned true: its true edge is a
            # true edge of pred (the false edge says nothing)
            cl = None
            for x in body.derived_from(op_local(t['args'][1]), through_mutation=False) if op_local(t['args'][1]) is not None else ():
                for d in body.defs().get(x, ()):
                    if d[1] == 'a' and d[2]['rv'][0] == 'agg' and d[2]['rv'][1][0] == 'closure':
                        cl = body.prog.bodies.get(norm(d[2]['rv'][1][1]))
            if cl is not None and _closure_returns_call(cl, pred_callees):
                calls.append(bi)
                if not t['d'][1]:
                    for sb, ts, fs in bool_uses(body, t['d'][0]):
                        if ts != fs:
                            edges.add((sb, ts))
    return edges, calls


def _closure_returns_call(cl, pred_callees):
    """The closure's result is, on every path, the value returned by a call to one of pred_callees."""
    pcs = [bi for bi, t, c in cl.calls() if bi in cl.reachable() and (c in pred_callees or callee_decl(t) in pred_callees)]
    if not pcs:
        return False
    dests = {cl.term[bi]['d'][0] for bi in pcs if not cl.term[bi]['d'][1]}
    if 0 in dests:
        return all(cl.term[bi]['d'][0] == 0 for bi in pcs) and not any(st['k'] == 'a' and st['p'] == [0, []] for bi in cl.reachable() for st in cl.stmts(bi))
    ok = False
    for bi in cl.reachable():
        for st in cl.stmts(bi):
            if st['k'] == 'a' and st['p'] == [0, []]:
                if st['rv'][0] == 'use' and op_local(st['rv'][1]) in dests:
                    ok = True
                else:
                    return False
    return ok


def receiver_root_key(body, pl):
    """Canonical key of the object a receiver operand refers to (strips one level of reference)."""
    c = body.canon(pl)
    l, proj = c
    if not proj:
        sd = body.single_def(l)
        if sd and sd[1] == 'a' and sd[2]['rv'][0] == 'ref':
            c = body.canon(sd[2]['rv'][2])
            return place_key(c)
        return place_key([l, ['*']])
    return place_key(c)


def dominated_by_edges(body, c, edges, iteration_precise=True):
    """True iff every path reaching block c (from the entry, and — if c sits in a loop — from the
    innermost loop header, i.e. in every iteration) traverses one of `edges`."""
    if not edges:
        return False
    srcs = [0]
    if iteration_precise:
        # innermost loop that contains both c and (the source block of) some guard edge
        for h in loop_headers_containing(body, c):
            if any(h in loop_headers_containing(body, sb) for sb, _ in edges):
                srcs = [h]
                break
    r = body.reach_from(srcs, avoid_edges=edges)
    return c not in r


# --------------------------------------------------------------------------- scrutinee selection

def scrutinees(body, enum):
    """{canonical key: dict(place, root, root_callee)} for every tracked scrutinee of `enum` in body."""
    out = {}
    flows = body.variant_flow(enum)
    # recover canonical places for keys: re-scan discriminant reads and predicate receivers
    for bi, s, pl, e in body.discr_reads(enum):
        c = body.canon(pl)
        out.setdefault(place_key(c), dict(place=c))
    for key in flows:
        out.setdefault(key, dict(place=None))
    for key, d in out.items():
        root = None
        if d['place'] is not None:
            root = d['place'][0]
        else:
            try:
                root = int(key[1:].split('*')[0].split('.')[0].split('@')[0])
            except ValueError:
                root = None
        d['root'] = root
        d['root_callee'] = None
        d['root_is_arg'] = root is not None and 1 <= root <= body.argc
        if root is not None:
            sd = body.single_def(root)
            if sd and sd[1] == 'call':
                d['root_callee'] = callee_of(sd[2])
        d['fields'] = [f for f in key.replace('*', '').split('.')[1:]]
    return out


def pick_scrutinee(body, enum, root_callees=None, last_field=None, root_is_arg=None):
    """The unique scrutinee key matching the selectors; FailClosed if none or ambiguous."""
    cands = []
    for key, d in scrutinees(body, enum).items():
        if root_callees is not None and d['root_callee'] not in root_callees:
            continue
        if last_field is not None and (not d['fields'] or d['fields'][-1].split('@')[0] != last_field):
            continue
        if root_is_arg is not None and d['root_is_arg'] != root_is_arg:
            continue
        cands.append(key)
    if len(cands) != 1:
        raise FailClosed(f'{body.path}: scrutinee of {last_seg(enum, 1)} ambiguous/missing: {cands} '
                         f'(all: {list(scrutinees(body, enum))})')
    return cands[0]


def check_arm_effect(ctx, rule, body, enum, variants, eff, mode, scrut, reason, exits=None, keyextra=''):
    """One row of an arm-effect table.  mode: must | may | never."""
    prog = ctx.prog
    variants = set(variants)
    entries, region = body.arm_entries(enum, variants, scrut)
    key = f'{body.path.split("::")[-1]}|{"+".join(sorted(variants))}|{mode}|{eff.name}{keyextra}'
    if not region:
        raise FailClosed(f'{rule}: no arm of {body.path} is guarded by {sorted(variants)} (scrutinee {scrut})')
    eb = effect_blocks(prog, body, eff)
    site = body.loc(entries[0]) if entries else body.loc()
    if mode == 'must':
        ok, wit = must_pass(body, entries, eb, exits)
        detail = None if ok else dict(arm_entry=wit[0], reaches_exit=wit[1], exit_line=body.loc(wit[1]), reason=reason)
        ctx.ob(rule, key, ok, f'{last_seg(body.path, 1)} x {{{",".join(sorted(variants))}}}: every path of the arm must perform {eff.name} ({reason})',
               site, detail)
    elif mode == 'may':
        ok = bool(region & eb)
        ctx.ob(rule, key, ok, f'{last_seg(body.path, 1)} x {{{",".join(sorted(variants))}}}: the arm performs {eff.name} on some path ({reason})', site)
    elif mode == 'never':
        bad = sorted(region & eb)
        ctx.ob(rule, key, not bad, f'{last_seg(body.path, 1)} x {{{",".join(sorted(variants))}}}: the arm never performs {eff.name} ({reason})',
               body.loc(bad[0]) if bad else site)
    elif mode == 'reach':
        r = body.reach_from(entries)
        ok = bool(r & eb)
        ctx.ob(rule, key, ok, f'{last_seg(body.path, 1)} x {{{",".join(sorted(variants))}}}: {eff.name} is reachable after the arm ({reason})', site)
    else:
        raise ValueError(mode)


def same_iteration_has(body, site, eblocks):
    """True iff on every pass through block `site` an effect block is executed in the same loop
    iteration (or, outside loops, in the same call): either every path from the innermost loop header
    (entry) to site passes an effect block, or every path from site to the next header / Return does."""
    eblocks = set(eblocks)
    if site in eblocks:
        return True
    hs = loop_headers_containing(body, site)
    src = [hs[0]] if hs else [0]
    before = site not in body.reach_from(src, avoid=eblocks)
    if before:
        return True
    exits = list(body.returns()) + (hs[:1] if hs else [])
    r = body.reach_after(site, avoid=eblocks)
    after = not any(e in r for e in exits)
    return after


def arg_local(t, i):
    return op_local(t['args'][i]) if i < len(t['args']) else None


def const_operands(body, l, depth=0):
    """Constant strings feeding local l through use/cast chains."""
    out = set()
    for bi, kind, payload in body.defs().get(l, ()):  # noqa
        if kind == 'a':
            for o in rv_operands(payload['rv']):
                if o[0] == 'k':
                    out.add(o[1])
                elif depth < 4 and op_local(o) is not None:
                    out |= const_operands(body, op_local(o), depth + 1)
    return out


def binops(body):
    """All (block, stmt, op, a, b) binary operations of a body."""
    for bi in body.reachable():
        for s in body.stmts(bi):
            if s['k'] == 'a' and s['rv'][0] == 'bin':
                yield bi, s, s['rv'][1], s['rv'][2], s['rv'][3]


def operand_fields(body, op):
    """Field names in the backward slice of an operand (for 'comparison is on fields f,g')."""
    l = op_local(op)
    if l is None:
        return set()
    fs = set(n for n, a, v in place_fields(op_place(op)))
    return fs | local_field_sources(body, l)
