"""Thorough tier: (i) facts re-extracted ignoring the cache, (ii) the same rules on two more build configurations
(debug-assertions off; --cfg zero_worker), (iii) sensitivity self-test: every seeded / mutant patch of the property is
applied to a scratch copy of the repository and must be reported with a violation that is not a known finding."""
import glob
import json
import os
import shutil
import subprocess
import sys
import tempfile
import time

from . import extract, runner
from .core import FailClosed

VERIF = extract.VERIF


def _scratch_copy(repo, prop):
    base = os.environ.get('TMPDIR', '/tmp')
    # a fixed path per property: cargo then overwrites the member artifacts instead of accumulating one set per run
    d = os.path.join(base, f'hqverif-scratch-{prop}')
    shutil.rmtree(d, ignore_errors=True)
    os.makedirs(d)
    subprocess.check_call(['rsync', '-a', '--exclude', 'target', '--exclude', '.git', repo.rstrip('/') + '/', d + '/'])
    return d


def _apply(patch, d):
    r = subprocess.run(['patch', '-p1', '-s', '--fuzz=3', '-i', patch], cwd=d, stdout=subprocess.PIPE, stderr=subprocess.STDOUT, text=True)
    return r.returncode == 0, r.stdout[-500:]


def patches_for(prop):
    out = []
    for d in sorted(glob.glob(os.path.join(VERIF, 'seeded', '*'))):
        mp = os.path.join(d, 'meta.json')
        if not os.path.exists(mp):
            continue
        with open(mp) as f:
            meta = json.load(f)
        exp = meta.get('expected', {})
        if meta.get('property') == prop or prop in exp.get('also_detected_by', []):
            out.append((os.path.basename(d), os.path.join(d, 'patch.diff'), exp.get(prop, exp.get('detected', True)) if isinstance(exp, dict) else True, meta))
    for p in sorted(glob.glob(os.path.join(VERIF, 'mutants', f'{prop}-*.patch'))):
        out.append((os.path.basename(p), p, True, {}))
    return out


def run(prop, seed, repo):
    t0 = time.time()
    results = dict(configs={}, mutants=[])
    worst = 0
    # (i) default configuration, cache ignored
    code, ctx = runner.run_property(prop, 'thorough', seed, repo, 'default', write_evidence=False, force=True)
    if ctx is None:
        return 2
    base_viol = {(o['rule'], o['key']) for o in ctx.obs if not o['ok']}
    results['configs']['default'] = dict(exit=code, obligations=len(ctx.obs), held=sum(1 for o in ctx.obs if o['ok']))
    worst = max(worst, code)
    # (ii) other configurations
    for cfg in ('nodebug', 'zero_worker'):
        try:
            c2, ctx2 = runner.run_property(prop, 'thorough', seed, repo, cfg, quiet=True, write_evidence=False, anchors_fail_closed=True)
        except Exception as e:  # pragma: no cover
            c2, ctx2 = 2, None
        if ctx2 is None:
            results['configs'][cfg] = dict(exit=c2, note='no verdict (fail closed) in this configuration')
            print(f'[{prop}] config {cfg}: no verdict (fail closed); the default configuration is the registered one', flush=True)
            continue
        results['configs'][cfg] = dict(exit=c2, obligations=len(ctx2.obs), held=sum(1 for o in ctx2.obs if o['ok']))
        print(f'[{prop}] config {cfg}: obligations={len(ctx2.obs)} held={results["configs"][cfg]["held"]} exit={c2}', flush=True)
        worst = max(worst, c2 if c2 == 1 else 0)
    # (iii) sensitivity self-test
    missed = []
    known = {(k['rule'], k['key']) for k in runner.load_known() if k['property'] == prop and k.get('status') == 'known'}
    for name, patch, expected, meta in patches_for(prop):
        d = _scratch_copy(repo, prop)
        try:
            ok, msg = _apply(patch, d)
            if not ok:
                results['mutants'].append(dict(name=name, outcome='patch does not apply', detail=msg))
                continue
            c3, ctx3 = runner.run_property(prop, 'thorough', seed, d, 'default', quiet=True, write_evidence=False, silent=True)
            if ctx3 is None:
                outcome = 'fail-closed'
                new = []
            else:
                new = sorted({(o['rule'], o['key']) for o in ctx3.obs if not o['ok']} - base_viol - known)
                outcome = 'detected' if new else 'missed'
            results['mutants'].append(dict(name=name, outcome=outcome, expected='detected' if expected else 'not detectable (documented)', new=new[:4]))
            print(f'[{prop}] self-test {name}: {outcome} {new[:2]}', flush=True)
            if expected and outcome != 'detected':
                missed.append(name)
        finally:
            shutil.rmtree(d, ignore_errors=True)
    # evidence
    code_q, ctxq = runner.run_property(prop, 'thorough', seed, repo, 'default', quiet=True, write_evidence=True)
    evp = os.path.join(VERIF, 'evidence', f'{prop}.json')
    with open(evp) as f:
        ev = json.load(f)
    ev['coverage']['thorough'] = results
    ev['coverage']['explanation'] += ' Thorough tier: facts re-extracted with the cache ignored; rules re-run on configurations debug-assertions=off and --cfg zero_worker; every seeded/mutant patch of the property applied to a scratch copy must be reported.'
    ev['wall_s'] = round(time.time() - t0, 1)
    with open(evp, 'w') as f:
        json.dump(ev, f, indent=1)
    if worst == 1:
        return 1
    if worst == 2:
        return 2
    if missed:
        print(f'SELF-TEST-MISSED property={prop} mutants={missed}', flush=True)
        return 3
    return 0
