"""hqrules.core — program model over the facts dumped by hqmir.

Everything here is *static*: CFG over built MIR, dominators, reachability with cut sets,
enum-variant dataflow (arm guards), variant-predicate tables, call graph with transitive
may-call, flow-insensitive derived-from.  No code of /repo is executed.
"""
import re
import sys
from collections import defaultdict, deque


class FailClosed(Exception):
    """An anchor is missing / a floor is not met: no verdict (exit 2)."""


# --------------------------------------------------------------------------- path normalisation

def norm(path):
    """Strip generic arguments: a::B::<T>::m -> a::B::m ; <X<'_> as T>::m -> <X as T>::m."""
    if path is None:
        return None
    if '<' not in path:
        return path
    out = []
    i = 0
    n = len(path)
    while i < n:
        c = path[i]
        if c == '<':
            prev = path[i - 1] if i > 0 else ''
            if path.startswith('<impl ', i):
                out.append(c)
                i += 1
                continue
            if prev.isalnum() or prev == '_' or (prev == ':' and i >= 2 and path[i - 2] == ':'):
                # generic args: skip balanced
                depth = 0
                j = i
                while j < n:
                    if path[j] == '<':
                        depth += 1
                    elif path[j] == '>' and (j == 0 or path[j - 1] != '-'):
                        depth -= 1
                        if depth == 0:
                            break
                    j += 1
                # drop a preceding '::'
                if prev == ':' and len(out) >= 2 and out[-1] == ':' and out[-2] == ':':
                    out.pop()
                    out.pop()
                i = j + 1
                continue
        out.append(c)
        i += 1
    return ''.join(out)


def last_seg(path, n=2):
    """Last n '::' segments of a normalised path (ignoring qualified-self noise)."""
    p = path
    m = re.match(r'^<(.+) as (.+)>::(.+)$', p)
    if m:
        return m.group(1).split('::')[-1] + '::' + m.group(3)
    return '::'.join(p.split('::')[-n:])


# --------------------------------------------------------------------------- places / operands

def place_local(pl):
    return pl[0]


def place_key(pl):
    """Hashable canonical text for a place JSON."""
    l, proj = pl
    parts = [f'_{l}']
    for e in proj:
        if e == '*':
            parts.append('*')
        elif isinstance(e, list):
            if e[0] == 'f':
                parts.append('.' + str(e[2]))
            elif e[0] == 'd':
                parts.append('@' + str(e[1]))
            elif e[0] == 'i':
                parts.append('[]')
            elif e[0] == 'ci':
                parts.append('[c]')
            else:
                parts.append('?')
        else:
            parts.append(str(e))
    return ''.join(parts)


def place_fields(pl):
    """List of (field name, adt, variant) projections in order."""
    return [(e[2], e[3], e[4]) for e in pl[1] if isinstance(e, list) and e[0] == 'f']


def op_place(op):
    if op and op[0] in ('c', 'm'):
        return op[1]
    return None


def op_local(op):
    p = op_place(op)
    return p[0] if p else None


def op_const(op):
    if op and op[0] == 'k':
        return op[1]
    return None


def rv_operands(rv):
    k = rv[0]
    if k == 'use' or k == 'repeat':
        return [rv[1]]
    if k == 'bin':
        return [rv[2], rv[3]]
    if k == 'un':
        return [rv[2]]
    if k == 'cast':
        return [rv[2]]
    if k == 'agg':
        return list(rv[2])
    return []


def rv_places(rv):
    k = rv[0]
    if k in ('ref',):
        return [rv[2]]
    if k in ('rawptr', 'cfd', 'discr'):
        return [rv[1]]
    return [p for p in (op_place(o) for o in rv_operands(rv)) if p]



# --------------------------------------------------------------------------- renumbering (for inlining)

def _shift_place(pl, off):
    l, proj = pl
    np = []
    for e in proj:
        if isinstance(e, list) and e and e[0] == 'i':
            np.append(['i', e[1] + off])
        else:
            np.append(e)
    return [l + off, np]


def _shift_op(o, off):
    if o and o[0] in ('c', 'm'):
        return [o[0], _shift_place(o[1], off)]
    return o


def _shift_rv(rv, off):
    k = rv[0]
    if k in ('use', 'repeat'):
        return [k, _shift_op(rv[1], off)]
    if k == 'ref':
        return [k, rv[1], _shift_place(rv[2], off)]
    if k in ('rawptr', 'cfd'):
        return [k, _shift_place(rv[1], off)]
    if k == 'discr':
        return [k, _shift_place(rv[1], off), rv[2]]
    if k == 'bin':
        return [k, rv[1], _shift_op(rv[2], off), _shift_op(rv[3], off)]
    if k == 'un':
        return [k, rv[1], _shift_op(rv[2], off)]
    if k == 'cast':
        return [k, rv[1], _shift_op(rv[2], off), rv[3]]
    if k == 'agg':
        return [k, rv[1], [_shift_op(o, off) for o in rv[2]]]
    return rv


def _shift_stmt(s, off):
    k = s['k']
    if k == 'a':
        return dict(s, p=_shift_place(s['p'], off), rv=_shift_rv(s['rv'], off))
    if k == 'sd':
        return dict(s, p=_shift_place(s['p'], off))
    if k in ('sl', 'sx'):
        return dict(s, v=s['v'] + off)
    return s


def _shift_term(t, off, base):
    t = dict(t)
    for key in ('t', 'uw', 'o', 'dr', 'im'):
        if key in t and isinstance(t[key], int):
            t[key] = t[key] + base
    k = t['k']
    if k == 'sw':
        t['op'] = _shift_op(t['op'], off)
        t['ts'] = [[v, tb + base] for v, tb in t['ts']]
    elif k == 'call':
        t['args'] = [_shift_op(a, off) for a in t['args']]
        t['d'] = _shift_place(t['d'], off)
        if 'fp' in t:
            t['fp'] = _shift_op(t['fp'], off)
    elif k == 'drop':
        t['p'] = _shift_place(t['p'], off)
    elif k == 'assert':
        t['op'] = _shift_op(t['op'], off)
    elif k == 'yield':
        t['op'] = _shift_op(t['op'], off)
        t['ra'] = _shift_place(t['ra'], off)
    return t

# --------------------------------------------------------------------------- Body

class Body:
    def __init__(self, j, prog):
        self.j = j
        self.prog = prog
        self.raw_path = j['path']
        self.path = norm(j['path'])
        self.kind = j['kind']
        self.file = j.get('file', '?')
        self.line = j.get('line', 0)
        self.end = j.get('end', 0)
        self.argc = j['argc']
        self.locals = j['locals']
        self.blocks = j['blocks']
        self.parent = norm(j.get('parent')) if j.get('parent') else None
        self.impl_of = norm(j.get('impl_of')) if j.get('impl_of') else None
        self.trait_item = norm(j.get('trait_item')) if j.get('trait_item') else None
        self.names = {}            # debug name -> [place]
        self.local_name = {}       # local -> debug name (direct locals only)
        for name, pl in j['dbg']:
            self.names.setdefault(name, []).append(pl)
            if not pl[1]:
                self.local_name.setdefault(pl[0], name)
        n = len(self.blocks)
        self.n = n
        self.succ = [[] for _ in range(n)]
        self.pred = [[] for _ in range(n)]
        self.term = [b['t'] for b in self.blocks]
        self.cleanup = [bool(b['c']) for b in self.blocks]
        for i, b in enumerate(self.blocks):
            if b['c'] or b['t'] is None:
                continue
            t = b['t']
            k = t['k']
            s = []
            if k in ('goto', 'drop', 'assert', 'fu', 'fe', 'yield'):
                s = [t['t']]
            elif k == 'call':
                s = [t['t']] if 't' in t else []
            elif k == 'sw':
                s = []
                for _, tb in t['ts']:
                    if tb not in s:
                        s.append(tb)
                if t['o'] not in s:
                    s.append(t['o'])
            s = [x for x in s if not self.blocks[x]['c']]
            self.succ[i] = s
            for x in s:
                self.pred[x].append(i)
        self._reach0 = None
        self._dom = None
        self._defs = None
        self._canon_cache = {}
        self._varflow = {}

    # ---- basics
    def loc(self, bi=None, stmt=None):
        if bi is None:
            return f'{self.file}:{self.line}'
        if stmt is not None:
            return f'{self.file}:{stmt.get("l", 0)}'
        t = self.term[bi]
        return f'{self.file}:{t.get("l", 0) if t else 0}'

    def reachable(self):
        if self._reach0 is None:
            self._reach0 = self.reach_from([0])
        return self._reach0

    def reach_from(self, srcs, avoid=(), avoid_edges=()):
        """Blocks reachable from srcs (inclusive) without entering a block of `avoid`
        and without traversing an edge of `avoid_edges`.  A src that is itself in avoid is
        not expanded (but is returned)."""
        avoid = set(avoid)
        avoid_edges = set(avoid_edges)
        seen = set()
        dq = deque()
        for s in srcs:
            if s not in seen:
                seen.add(s)
                dq.append(s)
        while dq:
            b = dq.popleft()
            if b in avoid:
                continue
            for x in self.succ[b]:
                if (b, x) in avoid_edges:
                    continue
                if x not in seen:
                    seen.add(x)
                    dq.append(x)
        return seen

    def reach_after(self, b, avoid=(), avoid_edges=()):
        """Blocks reachable strictly after block b's terminator."""
        return self.reach_from([x for x in self.succ[b] if (b, x) not in set(avoid_edges)],
                               avoid, avoid_edges)

    def coreach(self, dsts, avoid=()):
        avoid = set(avoid)
        seen = set()
        dq = deque()
        for s in dsts:
            if s not in seen:
                seen.add(s)
                dq.append(s)
        while dq:
            b = dq.popleft()
            for x in self.pred[b]:
                if x in avoid:
                    continue
                if x not in seen:
                    seen.add(x)
                    dq.append(x)
        return seen

    def returns(self):
        return [i for i in self.reachable() if self.term[i] and self.term[i]['k'] == 'ret']

    def can_return(self):
        """Blocks from which a `Return` is reachable (i.e. that do not necessarily diverge)."""
        return self.coreach(self.returns())

    def exists_path(self, srcs, dsts, avoid=(), avoid_edges=()):
        """Is there a path from (after entering) any block in srcs to any block in dsts that
        avoids `avoid` blocks?  srcs themselves may be in avoid (they are then not expanded)."""
        r = self.reach_from(srcs, avoid, avoid_edges)
        return any(d in r for d in dsts)

    # ---- dominators (over reachable non-cleanup blocks)
    def dominators(self):
        if self._dom is not None:
            return self._dom
        reach = self.reachable()
        order = []
        seen = set()
        # iterative DFS post-order
        stack = [(0, iter(self.succ[0]))]
        seen.add(0)
        while stack:
            b, it = stack[-1]
            adv = False
            for x in it:
                if x not in seen:
                    seen.add(x)
                    stack.append((x, iter(self.succ[x])))
                    adv = True
                    break
            if not adv:
                order.append(b)
                stack.pop()
        rpo = list(reversed(order))
        idx = {b: i for i, b in enumerate(rpo)}
        idom = {0: 0}
        changed = True
        while changed:
            changed = False
            for b in rpo[1:]:
                new = None
                for p in self.pred[b]:
                    if p in idom:
                        if new is None:
                            new = p
                        else:
                            f1, f2 = p, new
                            while f1 != f2:
                                while idx[f1] > idx[f2]:
                                    f1 = idom[f1]
                                while idx[f2] > idx[f1]:
                                    f2 = idom[f2]
                            new = f1
                if new is not None and idom.get(b) != new:
                    idom[b] = new
                    changed = True
        self._dom = idom
        return idom

    def dominates(self, a, b):
        idom = self.dominators()
        if b not in idom or a not in idom:
            return False
        x = b
        while True:
            if x == a:
                return True
            if x == 0:
                return False
            x = idom[x]

    # ---- statements / defs
    def stmts(self, bi):
        return self.blocks[bi]['s']

    def defs(self):
        """local -> list of (block, kind, payload) where kind in {'a' (assign stmt), 'call', 'arg', 'yield'}.
        Only whole-local definitions (no projection) are recorded under 'a'; projected writes
        are recorded as kind 'pw'."""
        if self._defs is not None:
            return self._defs
        d = defaultdict(list)
        for l in range(1, self.argc + 1):
            d[l].append((0, 'arg', None))
        for bi in range(self.n):
            if self.cleanup[bi]:
                continue
            for s in self.stmts(bi):
                if s['k'] == 'a':
                    l, proj = s['p']
                    if '*' in proj:
                        continue   # write through a pointer: not a definition of the local itself
                    d[l].append((bi, 'a' if not proj else 'pw', s))
            t = self.term[bi]
            if t is None:
                continue
            if t['k'] == 'call':
                l, proj = t['d']
                if '*' not in proj:
                    d[l].append((bi, 'call' if not proj else 'pwcall', t))
            elif t['k'] == 'yield':
                l, proj = t['ra']
                d[l].append((bi, 'yield', t))
        self._defs = d
        return d

    def single_def(self, l):
        ds = [x for x in self.defs().get(l, []) if x[1] in ('a', 'call', 'arg', 'yield')]
        if len(ds) == 1 and not any(x[1] in ('pw', 'pwcall') for x in self.defs().get(l, [])):
            return ds[0]
        return None

    def canon(self, pl, depth=0):
        """Rewrite a place through single-definition ref/use/copy chains so that
        `(*_30)` with `_30 = &(*_22).state` becomes `(*_22).state`.  Deref-of-ref collapses."""
        key = place_key(pl)
        if key in self._canon_cache:
            return self._canon_cache[key]
        l, proj = pl
        res = pl
        if depth < 12:
            sd = self.single_def(l)
            if sd and sd[1] == 'a':
                rv = sd[2]['rv']
                if rv[0] == 'ref' and proj and proj[0] == '*':
                    base = self.canon(rv[2], depth + 1)
                    res = [base[0], list(base[1]) + list(proj[1:])]
                elif rv[0] in ('use',) and op_place(rv[1]) is not None:
                    base = self.canon(op_place(rv[1]), depth + 1)
                    res = [base[0], list(base[1]) + list(proj)]
                elif rv[0] == 'cfd':
                    base = self.canon(rv[1], depth + 1)
                    res = [base[0], list(base[1]) + list(proj)]
                elif rv[0] == 'agg' and rv[1][0] == 'tuple' and proj and isinstance(proj[0], list) and proj[0][0] == 'f':
                    # (a, &b).1 -> &b : match on a tuple of scrutinees
                    i = proj[0][1]
                    if i < len(rv[2]) and op_place(rv[2][i]) is not None:
                        base = self.canon([op_place(rv[2][i])[0], list(op_place(rv[2][i])[1]) + list(proj[1:])], depth + 1)
                        res = base
            elif sd and sd[1] == 'call':
                # Deref::deref / DerefMut::deref_mut / Borrow / as_ref style wrappers are transparent
                t = sd[2]
                cal = norm(t.get('fn', ''))
                if cal in TRANSPARENT_CALLS and t['args']:
                    ap = op_place(t['args'][0])
                    if ap is not None:
                        # result is a reference to (a part of) *arg ; treat `*res` as `*arg`
                        base = self.canon(ap, depth + 1)
                        res = [base[0], list(base[1]) + list(proj)]
        if depth < 12 and place_key(res) != key:
            res = self.canon(res, depth + 1)   # the rewritten place may be rewritable again
        self._canon_cache[key] = res
        return res

    def canon_key(self, pl):
        return place_key(self.canon(pl))

    # ---- calls
    def calls(self):
        """Yield (block, term, callee) for every non-cleanup call terminator."""
        for bi in range(self.n):
            if self.cleanup[bi]:
                continue
            t = self.term[bi]
            if t and t['k'] == 'call':
                yield bi, t, callee_of(t)

    def call_blocks(self, pred):
        """Blocks whose call terminator's callee satisfies pred (str -> bool) or is in a set."""
        if isinstance(pred, (set, frozenset, list, tuple)):
            s = set(pred)
            f = lambda c: c in s
        elif isinstance(pred, str):
            f = lambda c: c == pred
        else:
            f = pred
        reach = self.reachable()
        return [bi for bi, t, c in self.calls() if bi in reach and c and f(c)]

    def yields(self):
        return [i for i in self.reachable() if self.term[i] and self.term[i]['k'] == 'yield']

    # ---- enum variant dataflow (arm guards)
    def discr_reads(self, enum=None):
        """(block, stmt, place, enum) for discriminant reads, optionally of one enum path."""
        out = []
        for bi in self.reachable():
            for s in self.stmts(bi):
                if s['k'] == 'a' and s['rv'][0] == 'discr':
                    e = s['rv'][2]
                    if enum is None or e == enum:
                        out.append((bi, s, s['rv'][1], e))
        return out

    def switch_info(self, bi):
        """If block bi ends in a SwitchInt over a discriminant read or a bool, describe it.
        Returns dict(kind='discr', enum, place, edges={succ: set(variant names)}) or
                dict(kind='bool', local, true_succ, false_succ) or None."""
        t = self.term[bi]
        if not t or t['k'] != 'sw':
            return None
        l = op_local(t['op'])
        if l is None:
            return None
        # find defining statement of l (search this block backwards, then single def)
        dstmt = None
        for s in reversed(self.stmts(bi)):
            if s['k'] == 'a' and s['p'] == [l, []]:
                dstmt = s
                break
        if dstmt is None:
            sd = self.single_def(l)
            if sd and sd[1] == 'a':
                dstmt = sd[2]
        if dstmt is not None and dstmt['rv'][0] == 'discr' and dstmt['rv'][2]:
            enum = dstmt['rv'][2]
            adt = self.prog.enum(enum)
            if adt is None:
                return None
            byval = {v['discr']: v['name'] for v in adt['variants']}
            allv = [v['name'] for v in adt['variants']]
            edges = defaultdict(set)
            explicit = set()
            for val, tb in t['ts']:
                vn = byval.get(val)
                if vn is not None:
                    edges[tb].add(vn)
                    explicit.add(vn)
            rest = set(allv) - explicit
            if rest:
                edges[t['o']] |= rest
            return dict(kind='discr', enum=enum, place=dstmt['rv'][1], edges=dict(edges), all=set(allv))
        if t['ty'] == 'bool':
            ts = dict((v, tb) for v, tb in t['ts'])
            if 0 in ts:
                return dict(kind='bool', local=l, false_succ=ts[0], true_succ=t['o'])
            if 1 in ts:
                return dict(kind='bool', local=l, true_succ=ts[1], false_succ=t['o'])
        return None

    def variant_flow(self, enum, scrut_key=None, use_predicates=True):
        """Forward may-analysis of the set of variants of one scrutinee.
        Returns (scrutinee keys seen, {key: {block: frozenset(variants at block entry)}}).
        The scrutinee is identified by the canonical place key of discriminant reads of `enum`
        (and of receivers of variant predicates).  Writes to the scrutinee do NOT reset the
        set: the guard means 'the state as observed at the dominating switch' (old state)."""
        ck = (enum, use_predicates)
        if ck in self._varflow:
            res = self._varflow[ck]
        else:
            res = self._compute_variant_flow(enum, use_predicates)
            self._varflow[ck] = res
        if scrut_key is not None:
            return res.get(scrut_key)
        return res

    def _edge_constraints(self, enum, use_predicates):
        """{scrut_key: {(b, succ): set(variants)}}"""
        adt = self.prog.enum(enum)
        if adt is None:
            raise FailClosed(f'enum {enum} not in facts')
        allv = set(v['name'] for v in adt['variants'])
        cons = defaultdict(dict)
        for bi in self.reachable():
            si = self.switch_info(bi)
            if not si:
                continue
            if si['kind'] == 'discr' and si['enum'] == enum:
                key = self.canon_key(si['place'])
                for sb, vs in si['edges'].items():
                    cons[key][(bi, sb)] = set(vs)
            elif si['kind'] == 'bool' and use_predicates:
                # bool from predicate call (possibly negated)
                pol = True
                l = si['local']
                seen = 0
                while seen < 6:
                    seen += 1
                    sd = self.single_def(l)
                    if not sd:
                        break
                    if sd[1] == 'a':
                        rv = sd[2]['rv']
                        if rv[0] == 'un' and rv[1] == 'Not' and op_local(rv[2]) is not None:
                            pol = not pol
                            l = op_local(rv[2])
                            continue
                        if rv[0] == 'use' and op_local(rv[1]) is not None:
                            l = op_local(rv[1])
                            continue
                        break
                    if sd[1] == 'call':
                        t = sd[2]
                        pt = self.prog.predicate_table(callee_of(t))
                        if pt and pt['enum'] == enum and t['args']:
                            ap = op_place(t['args'][0])
                            if ap is not None:
                                base = self.canon(ap)
                                # predicate scrutinee is rooted at (*_1) + fields
                                full = [base[0], list(base[1]) + ['*'] + list(pt['proj'])]
                                # collapse "&X then *" : canon() on a synthetic place is not
                                # possible; normalise textually: a ref-taking arg was canon'ed to
                                # the referent already if single-def, so drop the extra deref
                                key = place_key(self._collapse_ref(ap, pt['proj']))
                                tv = set(pt['true'])
                                fv = allv - tv
                                if not pol:
                                    tv, fv = fv, tv
                                cons[key][(bi, si['true_succ'])] = tv
                                cons[key][(bi, si['false_succ'])] = fv
                        break
                    break
        return cons, allv

    def _collapse_ref(self, arg_place, proj):
        """arg_place is a local holding `&X` (or a place of reference type); return canonical X + proj."""
        l, p = arg_place
        sd = self.single_def(l) if not p else None
        if sd and sd[1] == 'a' and sd[2]['rv'][0] == 'ref':
            base = self.canon(sd[2]['rv'][2])
            return [base[0], list(base[1]) + list(proj)]
        if sd and sd[1] == 'a' and sd[2]['rv'][0] == 'use' and op_place(sd[2]['rv'][1]) is not None:
            return self._collapse_ref(op_place(sd[2]['rv'][1]), proj)
        base = self.canon(arg_place)
        return [base[0], list(base[1]) + ['*'] + list(proj)]

    def _tracked_bools(self):
        """bool locals whose every definition is a constant true/false (materialised conditions:
        matches!, &&, ||, if-let guards) -> {local: True}; plus per block the ordered const writes."""
        if hasattr(self, '_tb'):
            return self._tb
        cand = {}
        for l, ds in self.defs().items():
            if self.locals[l][0] != 'bool' or not ds:
                continue
            ok = True
            for bi, k, payload in ds:
                if k != 'a':
                    ok = False
                    break
                rv = payload['rv']
                cv = op_const(rv[1]) if rv[0] == 'use' else None
                if cv not in ('true', 'false', 'const true', 'const false'):
                    ok = False
                    break
            if ok:
                cand[l] = True
        writes = defaultdict(list)
        for l in cand:
            for bi, k, payload in self.defs()[l]:
                cv = op_const(payload['rv'][1])
                writes[bi].append((l, 'true' in cv))
        self._tb = (cand, writes)
        return self._tb

    def _compute_variant_flow(self, enum, use_predicates):
        cons, allv = self._edge_constraints(enum, use_predicates)
        tracked, writes = self._tracked_bools()
        # bool switches over tracked locals: block -> (local, true_succ, false_succ)
        bsw = {}
        for bi in self.reachable():
            si = self.switch_info(bi)
            if si and si['kind'] == 'bool':
                l = si['local']
                hops = 0
                while l not in tracked and hops < 4:
                    # `let allowed = matches!(..); if allowed {..}`: alias of a materialised condition
                    sd = self.single_def(l)
                    if sd and sd[1] == 'a' and sd[2]['rv'][0] == 'use' and op_local(sd[2]['rv'][1]) is not None \
                            and not op_place(sd[2]['rv'][1])[1]:
                        l = op_local(sd[2]['rv'][1])
                        hops += 1
                    else:
                        break
                if l in tracked:
                    bsw[bi] = (l, si['true_succ'], si['false_succ'])
        out = {}
        # gen: `scrutinee = Aggregate(enum::V)` (whole-place assignment) defines the variant
        gens = defaultdict(dict)   # key -> {block: variant (last such statement in block)}
        for bi in self.reachable():
            for s in self.stmts(bi):
                if s['k'] == 'a' and s['rv'][0] == 'agg' and s['rv'][1][0] == 'adt' and norm(s['rv'][1][1]) == enum:
                    gens[place_key(self.canon(s['p']))][bi] = s['rv'][1][2]
                    gens[place_key(s['p'])][bi] = s['rv'][1][2]
        for key, ec in cons.items():
            init = (frozenset(allv), frozenset())
            state = {0: {init}}
            gen_k = gens.get(key, {})
            wl = deque([0])
            inq = {0}
            while wl:
                b = wl.popleft()
                inq.discard(b)
                cur = state[b]
                # statements: constant writes to tracked bools
                if b in writes:
                    ncur = set()
                    for vs, env in cur:
                        e = dict(env)
                        for l, val in writes[b]:
                            e[l] = val
                        ncur.add((vs, frozenset(e.items())))
                    cur = ncur
                if b in gen_k:
                    cur = {(frozenset([gen_k[b]]), env) for vs, env in cur}
                for sb in self.succ[b]:
                    c = ec.get((b, sb))
                    nxt = set()
                    for vs, env in cur:
                        nv = vs & c if c is not None else vs
                        if not nv:
                            continue
                        if b in bsw:
                            l, ts, fs = bsw[b]
                            e = dict(env)
                            if l in e:
                                want = True if sb == ts else False
                                if ts == fs:
                                    pass
                                elif e[l] != want:
                                    continue
                                del e[l]
                                env2 = frozenset(e.items())
                            else:
                                env2 = env
                            nxt.add((frozenset(nv), env2))
                        else:
                            nxt.add((frozenset(nv), env))
                    if not nxt:
                        continue
                    old = state.get(sb)
                    if old is None:
                        state[sb] = set(nxt)
                        changed = True
                    else:
                        before = len(old)
                        old |= nxt
                        changed = len(old) != before
                        if len(old) > 64:
                            # widen: forget bool environments
                            u = frozenset().union(*[vs for vs, _ in old])
                            state[sb] = {(u, frozenset())}
                    if changed and sb not in inq:
                        inq.add(sb)
                        wl.append(sb)
            out[key] = {b: frozenset().union(*[vs for vs, _ in sts]) for b, sts in state.items()}
        return out

    def arm_blocks(self, enum, variants, scrut_key=None):
        """Blocks at whose entry the scrutinee is known to be within `variants` (non-empty)."""
        variants = set(variants)
        res = set()
        flows = self.variant_flow(enum)
        for key, st in flows.items():
            if scrut_key is not None and key != scrut_key:
                continue
            for b, vs in st.items():
                if vs and vs <= variants:
                    res.add(b)
        return res

    def arm_entries(self, enum, variants, scrut_key=None):
        """Entry blocks of the arm region: region blocks with a predecessor outside the region."""
        reg = self.arm_blocks(enum, variants, scrut_key)
        return sorted(b for b in reg if any(p not in reg for p in self.pred[b]) or b == 0), reg

    # ---- derived-from (flow-insensitive)
    def flow_graph(self):
        """local -> set(locals it directly derives from)."""
        if hasattr(self, '_fg'):
            return self._fg
        g = defaultdict(set)
        self._mut_edges = {}   # (target local, source local) -> blocks of the mutating calls
        for bi in range(self.n):
            if self.cleanup[bi]:
                continue
            for s in self.stmts(bi):
                if s['k'] != 'a':
                    continue
                dl = s['p'][0]
                for pl in rv_places(s['rv']):
                    g[dl].add(pl[0])
                    for e in pl[1]:
                        if isinstance(e, list) and e[0] == 'i':
                            g[dl].add(e[1])
            t = self.term[bi]
            if t and t['k'] == 'call':
                dl = t['d'][0]
                for a in t['args']:
                    l = op_local(a)
                    if l is not None:
                        g[dl].add(l)
                        # &mut receivers may be written from the other args
                fp = t.get('fp')
                if fp and op_local(fp) is not None:
                    g[dl].add(op_local(fp))
                # a `&mut X` argument lets the callee write X from the other arguments
                alocs = [op_local(a) for a in t['args'] if op_local(a) is not None]
                for a in alocs:
                    tgt = self._mutref_target(a)
                    if tgt is not None:
                        for o in alocs:
                            if o != a:
                                g[tgt].add(o)
                                self._mut_edges.setdefault((tgt, o), set()).add(bi)
            elif t and t['k'] == 'yield':
                l = op_local(t['op'])
                if l is not None:
                    g[t['ra'][0]].add(l)
        self._fg = g
        return g

    def _mutref_target(self, l, depth=0):
        """If local l holds `&mut X` (possibly re-borrowed / through deref_mut) return X's base local."""
        if depth > 6:
            return None
        ds = [x for x in self.defs().get(l, []) if x[1] in ('a', 'call')]
        if len(ds) != 1:
            return None
        bi, k, payload = ds[0]
        if k == 'a':
            rv = payload['rv']
            if rv[0] == 'ref' and rv[1] == 'mut':
                base, proj = rv[2]
                if '*' in proj:
                    r = self._mutref_target(base, depth + 1)
                    return r if r is not None else base
                return base
            if rv[0] == 'use' and op_local(rv[1]) is not None and self.locals[l][0].startswith('&mut'):
                return self._mutref_target(op_local(rv[1]), depth + 1)
        elif k == 'call':
            if norm(payload.get('fn', '')) in TRANSPARENT_CALLS and payload['args']:
                a = op_local(payload['args'][0])
                if a is not None:
                    return self._mutref_target(a, depth + 1)
        return None

    def derived_from(self, l, through_mutation=True):
        """Backward closure: all locals the value of local l may derive from (incl. l).
        through_mutation=False ignores edges that exist only because a `&mut X` argument may be written
        by a callee from its other arguments."""
        g = self.flow_graph()
        if through_mutation:
            key = ('df', l)
        else:
            key = ('dfn', l)
        cache = self.__dict__.setdefault('_dfcache', {})
        if key in cache:
            return cache[key]
        plain = self._plain_edges() if not through_mutation else None
        seen = {l}
        dq = deque([l])
        while dq:
            x = dq.popleft()
            for y in g.get(x, ()):
                if y in seen:
                    continue
                if plain is not None and (x, y) in self._mut_edges and (x, y) not in plain:
                    continue
                seen.add(y)
                dq.append(y)
        cache[key] = seen
        return seen

    def _plain_edges(self):
        if hasattr(self, '_pe'):
            return self._pe
        pe = set()
        for bi in range(self.n):
            if self.cleanup[bi]:
                continue
            for s in self.stmts(bi):
                if s['k'] == 'a':
                    for pl in rv_places(s['rv']):
                        pe.add((s['p'][0], pl[0]))
            t = self.term[bi]
            if t and t['k'] == 'call':
                for a in t['args']:
                    l = op_local(a)
                    if l is not None:
                        pe.add((t['d'][0], l))
        self._pe = pe
        return pe

    def taint_forward(self, srcs):
        """Forward closure: all locals that may derive from any of srcs."""
        g = self.flow_graph()
        rev = defaultdict(set)
        for d, ss in g.items():
            for s in ss:
                rev[s].add(d)
        seen = set(srcs)
        dq = deque(srcs)
        while dq:
            x = dq.popleft()
            for y in rev.get(x, ()):
                if y not in seen:
                    seen.add(y)
                    dq.append(y)
        return seen

    def locals_named(self, name):
        return [pl[0] for pl in self.names.get(name, []) if not pl[1]]

    def field_writes(self):
        """Yield (block, stmt|term, place, fields[(name, adt, variant)]) for every write through a
        projection that ends in a field (assign statements and call destinations)."""
        for bi in self.reachable():
            for s in self.stmts(bi):
                if s['k'] == 'a' and s['p'][1]:
                    yield bi, s, s['p'], place_fields(s['p'])
            t = self.term[bi]
            if t and t['k'] == 'call' and t['d'][1]:
                yield bi, t, t['d'], place_fields(t['d'])


TRANSPARENT_CALLS = {
    'core::ops::deref::Deref::deref', 'core::ops::deref::DerefMut::deref_mut',
    'core::borrow::Borrow::borrow', 'core::borrow::BorrowMut::borrow_mut',
    'core::convert::AsRef::as_ref', 'core::convert::AsMut::as_mut',
    'std::ops::Deref::deref', 'std::ops::DerefMut::deref_mut',
}


def callee_of(t):
    """Normalised callee path of a call terminator: resolved instance if known, else the
    (possibly trait) method path; None for indirect calls."""
    c = t.get('rfn') or t.get('fn')
    return norm(c) if c else None


def callee_decl(t):
    """Normalised *declared* callee (trait method path for trait calls)."""
    c = t.get('fn')
    return norm(c) if c else None


# --------------------------------------------------------------------------- Program

class Program:
    def __init__(self, crates):
        self.bodies = {}
        self.adts = {}
        self.enums = {}
        self.impls = []
        self.fns = {}
        self.trait_impls = defaultdict(list)   # trait item path -> [impl item path]
        self.meta = []
        for cj in crates:
            self.meta.append(dict(crate=cj['crate'], crate_types=cj['crate_types'], n_bodies=cj['n_bodies']))
            for a in cj.get('adts', []):
                self.adts[norm(a['path'])] = a
            for a in cj.get('enums', []):
                self.enums.setdefault(norm(a['path']), a)
                self.adts.setdefault(norm(a['path']), a)
            for im in cj.get('impls', []):
                self.impls.append(im)
                for ti, ii in im['items']:
                    self.trait_impls[norm(ti)].append(norm(ii))
            for f in cj.get('fns', []):
                self.fns[norm(f['path'])] = f
            for bj in cj['bodies']:
                b = Body(bj, self)
                if b.path in self.bodies:
                    # duplicates can only come from identical generic paths; keep first, suffix others
                    k = 2
                    while f'{b.path}#{k}' in self.bodies:
                        k += 1
                    b.path = f'{b.path}#{k}'
                self.bodies[b.path] = b
        self._pred_tables = {}
        self._inlined = {}
        self._known = None
        self._inlined_into = {}
        self._callers = None
        self._maycall = None
        self._children = None

    # ---- lookup
    def body(self, path, inline=True):
        """The body of `path`.  With inline=True (default) helper functions that have exactly one call site in the whole
        program, located in this body, are spliced into its CFG (the call terminator is kept, so call-site anchors still
        work, and its successor becomes the entry of the inlined copy).  An "extract helper" refactoring therefore leaves
        the intra-procedural rules anchored in the original function unaffected."""
        b = self.bodies.get(path)
        if b is None:
            raise FailClosed(f'anchor missing: body {path}')
        if not inline:
            return b
        ib = self._inlined.get(path)
        if ib is None:
            ib = self._make_inlined(b)
            self._inlined[path] = ib
        return ib

    # ---- inlining of single-call-site helpers
    def known_functions(self):
        if self._known is None:
            import json as _json
            import os as _os
            p = _os.path.join(_os.path.dirname(_os.path.dirname(_os.path.dirname(_os.path.abspath(__file__)))), 'tables', 'known_functions.json')
            try:
                with open(p) as f:
                    self._known = set(_json.load(f)['functions'])
            except OSError:
                self._known = set(self.bodies)   # no table: never inline
        return self._known

    def _single_site_callee(self, callee, caller_body, blk):
        cb = self.bodies.get(callee)
        if cb is None or cb.kind not in ('fn', 'method') or callee == caller_body.path:
            return False
        if callee in self.known_functions():
            return False   # a function the rules were written against: analysed as it is
        if cb.n > 400:
            return False
        sites = [(x.path, bi) for x, bi in self.callers_of(callee) if '::tests::' not in x.path]
        sites = sorted(set(sites))
        if sites != [(caller_body.path, blk)]:
            return False
        if self.fn_refs().get(callee):
            return False
        return True

    def _make_inlined(self, b, depth=0, stack=()):
        if depth > 2:
            return b
        todo = []
        for bi, t, c in b.calls():
            if bi in b.reachable() and c and c not in stack and self._single_site_callee(c, b, bi):
                todo.append((bi, c))
        if not todo:
            return b
        j = b.j
        locals_ = list(j['locals'])
        dbg = list(j['dbg'])
        blocks = [dict(blk) for blk in j['blocks']]
        inl = []
        inl_map = {}
        for bi, c in todo:
            fb = self._make_inlined(self.bodies[c], depth + 1, stack + (b.path,))
            fj = fb.j
            off = len(locals_)
            base = len(blocks)
            locals_.extend(fj['locals'])
            for name, pl in fj['dbg']:
                dbg.append([name, _shift_place(pl, off)])
            t = dict(blocks[bi]['t'])
            line = t.get('l', 0)
            tgt = t.get('t')
            entry = base + len(fj['blocks'])
            # parameter passing block
            pst = []
            for i, a in enumerate(t['args']):
                if i < fj['argc']:
                    pst.append({'k': 'a', 'p': [off + 1 + i, []], 'rv': ['use', a], 'l': line})
            for fbi, fblk in enumerate(fj['blocks']):
                nb = {'c': fblk['c'], 's': [_shift_stmt(x, off) for x in fblk['s']], 't': None}
                ft = fblk['t']
                if ft is not None:
                    if ft['k'] == 'ret' and not fblk['c']:
                        nb['s'] = nb['s'] + [{'k': 'a', 'p': t['d'], 'rv': ['use', ['c', [off, []]]], 'l': ft.get('l', line)}]
                        nb['t'] = {'k': 'goto', 't': tgt, 'l': ft.get('l', line)} if tgt is not None else {'k': 'unreach', 'l': line}
                    else:
                        nb['t'] = _shift_term(ft, off, base)
                blocks.append(nb)
            blocks.append({'c': 0, 's': pst, 't': {'k': 'goto', 't': base, 'l': line}})
            t['t'] = entry
            t['inlined'] = c
            blocks[bi] = dict(blocks[bi], t=t)
            inl.append(c)
            inl.extend(getattr(fb, 'inlined_callees', []))
            inl_map[c] = base
            for c2, b2 in getattr(fb, 'inlined_base', {}).items():
                inl_map[c2] = base + b2
        nj = dict(j, locals=locals_, dbg=dbg, blocks=blocks)
        nb_ = Body(nj, self)
        nb_.path = b.path
        nb_.inlined_callees = inl
        nb_.inlined_base = inl_map      # helper path -> offset of its blocks in this body
        for c in inl:
            self._inlined_into.setdefault(b.path, [])
            if c not in self._inlined_into[b.path]:
                self._inlined_into[b.path].append(c)
        return nb_

    def analysis_bodies(self):
        """[(path, body)] for whole-program site indexes: every body in its inlined form (Program.body), without the raw
        bodies of helpers that were spliced into their single caller (their sites are seen once, inside the caller)."""
        ab = self.__dict__.get('_ab')
        if ab is None:
            helpers = set()
            out = []
            for p, b in self.bodies.items():
                ib = self.body(p)
                if ib is not b:
                    helpers |= set(getattr(ib, 'inlined_callees', []))
                out.append((p, ib))
            ab = [(p, b) for p, b in out if p not in helpers]
            self._ab = ab
            self._helper_host = {}
            for p, b in ab:
                for h, base in getattr(b, 'inlined_base', {}).items():
                    self._helper_host[h] = (b, base)
        return ab

    def host_site(self, body, bi):
        """Map a site (raw body, block) to (analysis body, block): identity unless the body is an inlined helper."""
        self.analysis_bodies()
        hh = self._helper_host.get(body.path)
        if hh is not None and body is self.bodies.get(body.path):
            return hh[0], hh[1] + bi
        ib = self._inlined.get(body.path)
        if ib is not None and ib is not body and body is self.bodies.get(body.path):
            return ib, bi      # own blocks keep their indices in the inlined form
        return body, bi

    def find_bodies(self, regex):
        r = re.compile(regex)
        return [b for p, b in self.bodies.items() if r.search(p)]

    def enum(self, path):
        return self.enums.get(path) or (self.adts.get(path) if self.adts.get(path, {}).get('kind') == 'enum' else None)

    def adt(self, path):
        a = self.adts.get(path)
        if a is None:
            raise FailClosed(f'anchor missing: adt {path}')
        return a

    def variants(self, enum):
        a = self.enum(enum)
        if a is None:
            raise FailClosed(f'anchor missing: enum {enum}')
        return [v['name'] for v in a['variants']]

    def children(self, path):
        """closure / coroutine bodies whose parent is `path` (direct)."""
        if self._children is None:
            ch = defaultdict(list)
            for p, b in self.bodies.items():
                if b.parent:
                    ch[b.parent].append(p)
            self._children = ch
        return self._children.get(path, [])

    def with_closures(self, path):
        """path + all transitively nested closure bodies."""
        out = [path]
        i = 0
        while i < len(out):
            out.extend(self.children(out[i]))
            # closures defined in helpers that were inlined into this body
            if out[i] in self.bodies and self.bodies[out[i]].kind in ('fn', 'method', 'coroutine'):
                try:
                    self.body(out[i])
                except FailClosed:
                    pass
                for c in self._inlined_into.get(out[i], []):
                    if c not in out:
                        out.append(c)
            i += 1
        return out

    # ---- call graph
    def call_targets(self, t):
        """All local bodies a call terminator may enter: the resolved callee, every local impl of
        an unresolved trait method (CHA), and for async fns / closures the nested bodies."""
        c = callee_of(t)
        out = []
        if c is None:
            return out
        if c in self.bodies:
            out.append(c)
        else:
            for ii in self.trait_impls.get(c, ()):  # CHA
                if ii in self.bodies:
                    out.append(ii)
        return out

    def callers(self):
        """callee path (normalised, resolved or declared) -> list of (caller Body, block)."""
        if self._callers is None:
            cs = defaultdict(list)
            for b in self.bodies.values():
                reach = b.reachable()
                for bi, t, c in b.calls():
                    if bi not in reach or c is None:
                        continue
                    cs[c].append((b, bi))
                    d = callee_decl(t)
                    if d != c:
                        cs[d].append((b, bi))
            self._callers = cs
        return self._callers

    def callers_of(self, path):
        return self.callers().get(path, [])

    def fn_refs(self):
        """function paths that are referenced as values (fn pointers / passed as arguments)."""
        if hasattr(self, '_fnrefs'):
            return self._fnrefs
        refs = defaultdict(list)
        for b in self.bodies.values():
            for bi in b.reachable():
                for s in b.stmts(bi):
                    if s['k'] == 'a':
                        for o in rv_operands(s['rv']):
                            if o[0] == 'k' and o[3]:
                                refs[norm(o[3])].append((b, bi))
                t = b.term[bi]
                if t and t['k'] == 'call':
                    for a in t['args']:
                        if a[0] == 'k' and a[3]:
                            refs[norm(a[3])].append((b, bi))
        self._fnrefs = refs
        return refs

    def direct_callees(self, path):
        """Set of callee names (normalised; local or foreign) called from body `path`, including
        calls made by closures/coroutines nested in it, with CHA expansion of trait methods."""
        out = set()
        for p in self.with_closures(path):
            b = self.bodies.get(p)
            if not b:
                continue
            reach = b.reachable()
            for bi, t, c in b.calls():
                if bi not in reach or c is None:
                    continue
                out.add(c)
                d = callee_decl(t)
                if d:
                    out.add(d)
                for tg in self.call_targets(t):
                    out.add(tg)
        return out

    def may_call(self, path):
        """Transitive closure of direct_callees through local bodies (includes foreign leaf names)."""
        if self._maycall is None:
            self._maycall = {}
        if path in self._maycall:
            return self._maycall[path]
        seen = set()
        dq = deque([path])
        visited_bodies = {path}
        while dq:
            p = dq.popleft()
            for c in self.direct_callees(p):
                if c not in seen:
                    seen.add(c)
                if c in self.bodies and c not in visited_bodies:
                    visited_bodies.add(c)
                    dq.append(c)
        self._maycall[path] = seen
        return seen

    def call_may_reach(self, t, targets):
        """Does the call terminator t (transitively, through local code) reach a callee in targets?"""
        targets = set(targets)
        c = callee_of(t)
        d = callee_decl(t)
        if c in targets or d in targets:
            return True
        for tg in self.call_targets(t):
            if tg in targets or (self.may_call(tg) & targets):
                return True
        # closures passed as arguments are assumed to be invoked by the callee
        return False

    def blocks_reaching(self, body, targets, include_closure_args=True):
        """Blocks of `body` whose call terminator may (transitively) invoke one of targets.
        A closure constructed in the body and passed to a call is attributed to the block that
        performs that call (the callee is assumed to invoke it)."""
        targets = set(targets)
        out = []
        reach = body.reachable()
        clos_of_local = {}
        if include_closure_args:
            for bi in reach:
                for s in body.stmts(bi):
                    if s['k'] == 'a' and s['rv'][0] == 'agg' and s['rv'][1][0] in ('closure', 'coroutine', 'coroutine_closure'):
                        clos_of_local[s['p'][0]] = norm(s['rv'][1][1])
        for bi, t, c in body.calls():
            if bi not in reach:
                continue
            hit = self.call_may_reach(t, targets)
            if not hit and clos_of_local:
                for a in t['args']:
                    l = op_local(a)
                    srcs = body.derived_from(l) if l is not None else ()
                    for sl in srcs:
                        cp = clos_of_local.get(sl)
                        if cp and (cp in targets or (self.may_call(cp) & targets)):
                            hit = True
                            break
                    if hit:
                        break
            if hit:
                out.append(bi)
        return out

    # ---- variant predicates (T5)
    def predicate_table(self, path):
        """For `fn(&self) -> bool` whose result is decided by one discriminant switch (matches!,
        match with constant arms) return dict(enum, proj, true=set(variants), exact=bool)."""
        if path in self._pred_tables:
            return self._pred_tables[path]
        self._pred_tables[path] = None
        b = self.bodies.get(path)
        if b is None or b.argc < 1:
            return None
        if b.locals[0][0] != 'bool':
            return None
        reads = b.discr_reads()
        if not reads:
            # maybe delegating: `self.state.is_x()` / `!self.is_y()`
            res = self._delegating_predicate(b)
            self._pred_tables[path] = res
            return res
        # all reads must be of one scrutinee rooted at arg 1
        keys = {}
        for bi, s, pl, e in reads:
            c = b.canon(pl)
            keys[place_key(c)] = (c, e)
        if len(keys) != 1:
            return None
        (key, (cpl, enum)), = keys.items()
        if cpl[0] != 1 or not cpl[1] or cpl[1][0] != '*':
            return None
        if enum is None:
            return None
        proj = cpl[1][1:]
        allv = set(self.variants(enum))
        flow = b.variant_flow(enum, use_predicates=False).get(key)
        if flow is None:
            return None
        tv, fv = set(), set()
        for bi in b.reachable():
            for s in b.stmts(bi):
                if s['k'] == 'a' and s['p'][1] == []:
                    l = s['p'][0]
                    cv = op_const(s['rv'][1]) if s['rv'][0] == 'use' else None
                    if cv in ('const true', 'true', 'const false', 'false') and self._flows_to_ret(b, l):
                        vs = flow.get(bi, frozenset())
                        if 'true' in cv:
                            tv |= vs
                        else:
                            fv |= vs
        exact = (tv | fv) == allv and not (tv & fv)
        if not exact:
            # result depends on more than the variant (e.g. a payload comparison): keep the
            # over-approximate table but mark it
            res = dict(enum=enum, proj=proj, true=tv - fv, maybe=tv & fv, exact=False)
            # inexact predicates are not used as guards
            self._pred_tables[path] = None
            self._pred_tables[path + '#inexact'] = res
            return None
        res = dict(enum=enum, proj=proj, true=tv, exact=True)
        self._pred_tables[path] = res
        return res

    def _flows_to_ret(self, b, l):
        if l == 0:
            return True
        # l is copied into _0 somewhere
        for bi in b.reachable():
            for s in b.stmts(bi):
                if s['k'] == 'a' and s['p'] == [0, []] and s['rv'][0] == 'use' and op_local(s['rv'][1]) == l:
                    return True
        return False

    def _delegating_predicate(self, b):
        # pattern: _0 = callee(&(*_1).field...)  or  tmp = callee(..); _0 = Not(tmp)
        calls = [(bi, t, c) for bi, t, c in b.calls() if bi in b.reachable()]
        if len(calls) != 1:
            return None
        bi, t, c = calls[0]
        inner = self.predicate_table(c)
        if not inner or not t['args']:
            return None
        ap = op_place(t['args'][0])
        if ap is None:
            return None
        full = b._collapse_ref(ap, inner['proj'])
        if full[0] != 1 or not full[1] or full[1][0] != '*':
            return None
        dl = t['d'][0]
        pol = True
        if dl != 0:
            # look for _0 = Not(dl) / _0 = use dl
            ok = False
            for bj in b.reachable():
                for s in b.stmts(bj):
                    if s['k'] == 'a' and s['p'] == [0, []]:
                        if s['rv'][0] == 'un' and s['rv'][1] == 'Not' and op_local(s['rv'][2]) == dl:
                            pol = False
                            ok = True
                        elif s['rv'][0] == 'use' and op_local(s['rv'][1]) == dl:
                            ok = True
            if not ok:
                return None
        allv = set(self.variants(inner['enum']))
        tv = set(inner['true']) if pol else allv - set(inner['true'])
        return dict(enum=inner['enum'], proj=full[1][1:], true=tv, exact=True)

    # ---- misc
    def stats(self):
        nb = len(self.bodies)
        nblk = sum(b.n for b in self.bodies.values())
        ncall = sum(1 for b in self.bodies.values() for _ in b.calls())
        nsw = sum(1 for b in self.bodies.values() for t in b.term if t and t['k'] == 'sw')
        ny = sum(1 for b in self.bodies.values() for t in b.term if t and t['k'] == 'yield')
        return dict(bodies=nb, blocks=nblk, call_sites=ncall, switches=nsw, yields=ny,
                    adts=len(self.adts), crates=self.meta)
