"""Check runner: obligations, known findings, reports, evidence, exit codes."""
import importlib
import json
import os
import re
import sys
import time
import traceback

from .core import FailClosed
from . import extract

VERIF = extract.VERIF


class Ctx:
    def __init__(self, prop_id, prog, tier, seed):
        self.prop = prop_id
        self.prog = prog
        self.tier = tier
        self.seed = seed
        self.obs = []          # obligations
        self.info = {}         # informational inventories (never fail)
        self.rules = {}        # rule id -> description
        self.not_decided = []
        self.trusted = []

    # ---- declaring
    def rule(self, rid, text):
        self.rules[rid] = text

    def ob(self, rule, key, ok, what, site=None, detail=None):
        """One obligation instance.  key: stable instance key (def paths / variant names, never
        line numbers).  ok: True = discharged, False = violated."""
        assert rule in self.rules, f'undeclared rule {rule}'
        self.obs.append(dict(rule=rule, key=key, ok=bool(ok), what=what, site=site, detail=detail))
        return bool(ok)

    def floor(self, rule, n, minimum, what):
        """Fail closed when a rule matched fewer instances than were confirmed by hand."""
        if n < minimum:
            raise FailClosed(f'{rule}: {what}: matched {n} < floor {minimum} (anchor moved? update the rule)')

    def require(self, cond, msg):
        if not cond:
            raise FailClosed(msg)

    def note(self, key, value):
        self.info[key] = value


def load_known():
    p = os.path.join(VERIF, 'known_findings.json')
    if not os.path.exists(p):
        return []
    with open(p) as f:
        return json.load(f).get('findings', [])


def safe_name(s):
    return re.sub(r'[^A-Za-z0-9_.-]+', '_', s)[:150]


def run_property(prop_id, tier='quick', seed=0, repo=None, config='default', quiet=False, write_evidence=True,
                 force=False, silent=False, anchors_fail_closed=False):
    """Returns (exit_code, ctx).  Prints VIOLATION / KNOWN-FINDING lines."""
    t0 = time.time()
    repo = repo or os.environ.get('VERIF_REPO', '/repo')
    try:
        prog = extract.load_program(repo, config, force=force)
        mod = importlib.import_module(f'props.{prop_id}')
    except FailClosed as e:
        # the tree does not build / facts cannot be produced: no verdict
        if not silent:
            print(f'FAIL-CLOSED property={prop_id}: {e}', flush=True)
        return 2, None
    ctx = Ctx(prop_id, prog, tier, seed)
    try:
        mod.run(ctx)
    except FailClosed as e:
        # a construct the rules are anchored in (a function, a call the function must make, a match the rule inspects)
        # is gone: the mechanism that enforces the property can no longer be found.  Reported as a violation of the rule
        # "the enforcing construct exists" (the obligations collected so far are kept).
        if anchors_fail_closed:
            if not silent:
                print(f'FAIL-CLOSED property={prop_id}: {e}', flush=True)
            return 2, None
        ctx.rules.setdefault('ANCHOR', 'every construct a rule of this property is anchored in exists (function, required call, inspected match)')
        msg = str(e)
        ctx.obs.append(dict(rule='ANCHOR', key=re.sub(r'[^A-Za-z0-9_.:|<>= -]+', '_', msg)[:120], ok=False,
                            what=f'enforcing construct not found: {msg}', site=None, detail=None))
    except Exception as e:   # an inspected construct has an unexpected shape (e.g. a required call is gone and indexing fails)
        if anchors_fail_closed:
            return 2, None
        tb = traceback.format_exc()
        if not silent:
            sys.stderr.write(tb)
        last = [l for l in tb.splitlines() if 'rules/props' in l][-1:] or ['?']
        where = re.sub(r'.*rules/props/', '', last[0]).strip()
        ctx.rules.setdefault('ANCHOR', 'every construct a rule of this property is anchored in exists (function, required call, inspected match)')
        ctx.obs.append(dict(rule='ANCHOR', key=f'rule evaluation aborted|{type(e).__name__}|{where.split(",")[0]}', ok=False,
                            what=f'a construct inspected by the rules has an unexpected shape ({type(e).__name__}: {e}) at {where}', site=None,
                            detail=dict(traceback=tb[-1500:])))

    # rules of other properties that are genuine necessary conditions of this one as well (module attribute RELATED =
    # {other property: [rule ids]}): the other module is evaluated on the same facts and the selected obligations are
    # imported under the rule id '<other>.<rule>'
    imported_from = {}
    for other, rids in (getattr(mod, 'RELATED', {}) or {}).items():
        try:
            omod = importlib.import_module(f'props.{other}')
            octx = Ctx(other, prog, tier, seed)
            try:
                omod.run(octx)
            except FailClosed as e:
                octx.rules.setdefault('ANCHOR', 'enforcing construct exists')
                octx.obs.append(dict(rule='ANCHOR', key=re.sub(r'[^A-Za-z0-9_.:|<>= -]+', '_', str(e))[:120], ok=False,
                                     what=f'enforcing construct not found: {e}', site=None, detail=None))
            except Exception as e:
                octx.rules.setdefault('ANCHOR', 'enforcing construct exists')
                octx.obs.append(dict(rule='ANCHOR', key=f'rule evaluation aborted|{type(e).__name__}', ok=False,
                                     what=f'rule evaluation of {other} aborted: {e}', site=None, detail=None))
            # an entry is a rule id, or 'rule~regex' selecting the instances of that rule whose key matches the regex
            plain = {r for r in rids if '~' not in r}
            keyed = [(r.split('~', 1)[0], re.compile(r.split('~', 1)[1])) for r in rids if '~' in r]
            for o in octx.obs:
                if o['rule'] in plain or any(o['rule'] == r_ and x_.search(o['key']) for r_, x_ in keyed) or (o['rule'] == 'ANCHOR' and not o['ok']):
                    nr = f'{other}.{o["rule"]}'
                    ctx.rules[nr] = f'[shared with {other}] ' + octx.rules.get(o['rule'], '')
                    o2 = dict(o, rule=nr)
                    ctx.obs.append(o2)
                    imported_from[(nr, o['key'])] = (other, o['rule'])
        except Exception:
            traceback.print_exc()
    allk = load_known()
    known = [k for k in allk if k['property'] == prop_id and k.get('status') == 'known']
    known_keys = {(k['rule'], k['key']): k for k in known}
    for (nr, key), (other, orule) in imported_from.items():
        for k in allk:
            if k['property'] == other and k.get('status') == 'known' and k['rule'] == orule and k['key'] == key:
                known_keys[(nr, key)] = k
    viols, knowns = [], []
    for o in ctx.obs:
        if o['ok']:
            continue
        k = known_keys.get((o['rule'], o['key']))
        if k:
            knowns.append((o, k))
        else:
            viols.append(o)
    os.makedirs(os.path.join(VERIF, 'reports'), exist_ok=True)
    seen_known = set()
    for o, k in knowns:
        if (o['rule'], o['key']) in seen_known:
            continue
        seen_known.add((o['rule'], o['key']))
        if not silent:
            print(f'KNOWN-FINDING: property={prop_id} {k["what_fails"]} [{o["rule"]} {o["key"]} at {o["site"]}]', flush=True)
    for o in viols:
        if silent:
            continue
        rp = os.path.join(VERIF, 'reports', f'{prop_id}-{safe_name(o["rule"])}-{safe_name(o["key"])}.json')
        with open(rp, 'w') as f:
            json.dump(dict(property=prop_id, rule=o['rule'], rule_text=ctx.rules[o['rule']], key=o['key'],
                           what=o['what'], site=o['site'], detail=o['detail'], repo=repo, config=config,
                           facts_hash=prog.facts_hash), f, indent=1)
        if not quiet:
            print(f'  {o["rule"]} violated at {o["site"]}: {o["what"]}', flush=True)
            if o['detail']:
                print(f'    detail: {json.dumps(o["detail"])[:600]}', flush=True)
        print(f'VIOLATION property={prop_id} replay={rp}', flush=True)

    n = len(ctx.obs)
    nok = sum(1 for o in ctx.obs if o['ok'])
    per_rule = {}
    for o in ctx.obs:
        r = per_rule.setdefault(o['rule'], dict(text=ctx.rules[o['rule']], instances=0, held=0))
        r['instances'] += 1
        r['held'] += 1 if o['ok'] else 0
    distinct = len({(o['rule'], o['key']) for o in ctx.obs})
    samples = []
    seen_rules = set()
    for o in ctx.obs:
        if o['rule'] not in seen_rules:
            seen_rules.add(o['rule'])
            samples.append(dict(rule=o['rule'], key=o['key'], site=o['site'], what=o['what'], held=o['ok']))
    for o, k in knowns[:5]:
        samples.append(dict(rule=o['rule'], key=o['key'], site=o['site'], what=o['what'], held=False, known_finding=True))
    wall = time.time() - t0
    if write_evidence:
        ev = dict(
            property_id=prop_id, tier=tier, seed=int(seed), level='other',
            coverage=dict(
                explanation=(getattr(mod, 'EXPLANATION', '') or
                             'Static rules over the built MIR of tako+hyperqueue; see rules.'),
                obligations=n, discharged=nok,
                evaluations=n, distinct_nontrivial=distinct,
                rule='one obligation = one (rule, instance key) pair whose anchor matched a construct in the '
                     'analysed MIR; an instance is non-trivial because it is only created when the anchor '
                     '(function, call site, arm, field write) was found; distinct = distinct (rule,key) pairs',
                samples=samples[:40],
                exhaustive=True,
                rules=per_rule,
                known_findings=[dict(rule=o['rule'], key=o['key'], site=o['site']) for o, k in knowns],
                not_decided=getattr(mod, 'NOT_DECIDED', []),
                analysed=prog.stats(),
                facts_hash=prog.facts_hash, config=config, repo=repo,
                extract=prog.extract_info,
                checker_cmd=f'./check {prop_id} --tier {tier}',
                trusted_base=[
                    'rustc MIR construction and callee resolution (nightly 1.97, mir_built)',
                    'class-hierarchy expansion of unresolved trait-method calls over local impls',
                    'hand-written semantic tables in rules/props (each row carries its reason)',
                    'single-threaded executor assumption for no-yield / borrow rules (DESIGN 7)'],
                info=ctx.info,
            ),
            assumptions=getattr(mod, 'ASSUMPTIONS', []) + [
                'decides structural necessary conditions only; the behavioural property as a whole is not decided'],
            wall_s=round(wall, 2), violations=len(viols))
        os.makedirs(os.path.join(VERIF, 'evidence'), exist_ok=True)
        tmp = os.path.join(VERIF, 'evidence', f'.{prop_id}.{os.getpid()}.tmp')
        with open(tmp, 'w') as f:
            json.dump(ev, f, indent=1, default=lambda x: sorted(x) if isinstance(x, (set, frozenset)) else str(x))
        os.replace(tmp, os.path.join(VERIF, 'evidence', f'{prop_id}.json'))
    if not quiet:
        print(f'[{prop_id}] tier={tier} config={config} facts={prog.facts_hash} obligations={n} held={nok} '
              f'known={len(knowns)} violations={len(viols)} wall={wall:.1f}s', flush=True)
        for r, d in sorted(per_rule.items()):
            print(f'   {r}: {d["held"]}/{d["instances"]}  {d["text"][:110]}', flush=True)
    return (1 if viols else 0), ctx
