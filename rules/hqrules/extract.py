"""Fact extraction: run hqmir over the repository being analysed, keyed by a content hash."""
import fcntl
import glob
import hashlib
import json
import os
import pickle
import shutil
import subprocess
import sys
import time

from .core import FailClosed, Program

VERIF = os.path.dirname(os.path.dirname(os.path.dirname(os.path.abspath(__file__))))
CACHE = os.path.join(VERIF, '.cache')
DRIVER_DIR = os.path.join(VERIF, 'driver')
DRIVER = os.path.join(DRIVER_DIR, 'target', 'release', 'hqmir')
FACTS_VERSION = '3'

CONFIGS = {
    # name -> (extra RUSTFLAGS, cargo args, extra env)
    'default': ('', [], {}),
    'nodebug': ('-Cdebug-assertions=off', [], {}),
    'zero_worker': ('--cfg zero_worker', [], {}),
}


def log(msg):
    print(f'[hqverif] {msg}', file=sys.stderr, flush=True)


def nightly_sysroot():
    return subprocess.check_output(['rustc', '+nightly', '--print', 'sysroot'], text=True).strip()


def ensure_driver():
    src = os.path.join(DRIVER_DIR, 'src', 'main.rs')
    if os.path.exists(DRIVER) and os.path.getmtime(DRIVER) >= os.path.getmtime(src):
        return
    log('building hqmir driver')
    env = dict(os.environ, CARGO_NET_OFFLINE='true')
    r = subprocess.run(['cargo', '+nightly', 'build', '--release', '--offline'], cwd=DRIVER_DIR, env=env,
                       stdout=subprocess.PIPE, stderr=subprocess.STDOUT, text=True)
    if r.returncode != 0 or not os.path.exists(DRIVER):
        raise FailClosed('cannot build hqmir driver:\n' + r.stdout[-4000:])


def tree_hash(repo, config):
    h = hashlib.sha256()
    h.update(FACTS_VERSION.encode())
    h.update(config.encode())
    h.update(repr(CONFIGS[config]).encode())
    files = []
    for root in ('crates/tako', 'crates/hyperqueue'):
        for dp, dn, fn in os.walk(os.path.join(repo, root)):
            dn[:] = [d for d in dn if d not in ('target', '.git')]
            for f in fn:
                if f.endswith(('.rs', '.toml', '.json', '.md', '.txt', '.proto')):
                    files.append(os.path.join(dp, f))
    for f in ('Cargo.toml', 'Cargo.lock'):
        files.append(os.path.join(repo, f))
    for f in sorted(files):
        h.update(os.path.relpath(f, repo).encode())
        try:
            with open(f, 'rb') as fh:
                h.update(hashlib.sha256(fh.read()).digest())
        except OSError:
            h.update(b'<missing>')
    with open(DRIVER, 'rb') as fh:
        h.update(hashlib.sha256(fh.read()).digest())
    return h.hexdigest()[:20]


def _prune_cache(keep=8):
    d = os.path.join(CACHE, 'facts')
    if not os.path.isdir(d):
        return
    ents = sorted((os.path.getmtime(os.path.join(d, e)), e) for e in os.listdir(d))
    for _, e in ents[:-keep]:
        shutil.rmtree(os.path.join(d, e), ignore_errors=True)


def extract(repo, config='default', force=False):
    """Returns (facts_dir, hash, info dict)."""
    ensure_driver()
    os.makedirs(CACHE, exist_ok=True)
    h = tree_hash(repo, config)
    fdir = os.path.join(CACHE, 'facts', h)
    need = ['tako-lib.built.json', 'hyperqueue-lib.built.json', 'hq-bin.built.json']
    lock = open(os.path.join(CACHE, 'lock'), 'w')
    fcntl.flock(lock, fcntl.LOCK_EX)
    try:
        if force and os.path.isdir(fdir):
            shutil.rmtree(fdir)
        if all(os.path.exists(os.path.join(fdir, n)) for n in need) and os.path.exists(os.path.join(fdir, 'ok')):
            os.utime(fdir)
            return fdir, h, dict(cached=True)
        shutil.rmtree(fdir, ignore_errors=True)
        os.makedirs(fdir)
        target = os.path.join(CACHE, 'target' if config == 'default' else f'target-{config}')
        # never trust cargo's freshness for the members: drop their fingerprints
        for pat in ('tako-*', 'hyperqueue-*'):
            for p in glob.glob(os.path.join(target, 'debug', '.fingerprint', pat)):
                shutil.rmtree(p, ignore_errors=True)
        rf, cargo_args, extra_env = CONFIGS[config]
        env = dict(os.environ)
        env.update(extra_env)
        env['LD_LIBRARY_PATH'] = os.path.join(nightly_sysroot(), 'lib') + ':' + env.get('LD_LIBRARY_PATH', '')
        env['RUSTFLAGS'] = ('-Zmir-opt-level=0 -Awarnings ' + rf).strip()
        env['RUSTC_WORKSPACE_WRAPPER'] = DRIVER
        env['HQMIR_OUT'] = fdir
        env['HQMIR_CRATES'] = 'tako,hyperqueue,hq'
        env['HQMIR_ELAB'] = 'tako::internal::worker::'
        env['CARGO_TARGET_DIR'] = target
        env['CARGO_NET_OFFLINE'] = 'true'
        env.pop('RUSTC_WRAPPER', None)
        t0 = time.time()
        cmd = ['cargo', '+nightly', 'check', '--offline', '-p', 'tako', '-p', 'hyperqueue', '--lib', '--bins'] + cargo_args
        log(f'extracting facts for {repo} [{config}] -> {fdir}')
        r = subprocess.run(cmd, cwd=repo, env=env, stdout=subprocess.PIPE, stderr=subprocess.STDOUT, text=True)
        dt = time.time() - t0
        if r.returncode != 0:
            shutil.rmtree(fdir, ignore_errors=True)
            raise FailClosed(f'build of {repo} [{config}] failed (exit {r.returncode}):\n' + r.stdout[-6000:])
        missing = [n for n in need if not os.path.exists(os.path.join(fdir, n))]
        if missing:
            shutil.rmtree(fdir, ignore_errors=True)
            raise FailClosed(f'fact files missing after extraction: {missing}\n' + r.stdout[-3000:])
        with open(os.path.join(fdir, 'ok'), 'w') as f:
            json.dump(dict(repo=repo, config=config, hash=h, extract_s=round(dt, 1), cmd=' '.join(cmd),
                           rustflags=env['RUSTFLAGS']), f)
        _prune_cache()
        return fdir, h, dict(cached=False, extract_s=round(dt, 1))
    finally:
        fcntl.flock(lock, fcntl.LOCK_UN)
        lock.close()


def load_program(repo, config='default', force=False):
    fdir, h, info = extract(repo, config, force)
    pk = os.path.join(fdir, 'program.pkl')
    t0 = time.time()
    crates = []
    if os.path.exists(pk):
        try:
            with open(pk, 'rb') as f:
                crates = pickle.load(f)
        except Exception:
            crates = []
    if not crates:
        for n in sorted(os.listdir(fdir)):
            if n.endswith('.json'):
                with open(os.path.join(fdir, n)) as f:
                    crates.append(json.load(f))
        tmp = pk + f'.tmp{os.getpid()}'
        with open(tmp, 'wb') as f:
            pickle.dump(crates, f, protocol=pickle.HIGHEST_PROTOCOL)
        os.replace(tmp, pk)
    built = [c for c in crates if c.get('stage') == 'built']
    elab = [c for c in crates if c.get('stage') == 'elab']
    prog = Program(built)
    prog.elab = Program(elab) if elab else None
    prog.facts_hash = h
    prog.facts_dir = fdir
    prog.config = config
    prog.repo = repo
    with open(os.path.join(fdir, 'ok')) as f:
        prog.extract_info = json.load(f)
    prog.extract_info.update(info)
    prog.load_s = round(time.time() - t0, 2)
    return prog
