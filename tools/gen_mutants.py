#!/usr/bin/env python3
"""Generates /verif/mutants/<prop>-<name>.patch from (file, old, new) triples against the current /repo tree (in a
scratch copy; /repo is not touched).  These hand-written mutants complement the independently seeded changes: each breaks
exactly one rule instance and is used by the sensitivity self-test of the thorough tier."""
import os, subprocess, shutil, sys
REPO='/repo'
OUT=os.path.join(os.path.dirname(os.path.dirname(os.path.abspath(__file__))),'mutants')
T='crates/tako/src/internal/'
H='crates/hyperqueue/src/'
M=[
 ('C02','no-wakeup-after-worker-loss', T+'server/reactor.rs', "        }\n    }\n\n    comm.ask_for_scheduling();\n}\n\npub(crate) fn on_new_tasks", "        }\n    }\n}\n\npub(crate) fn on_new_tasks"),
 ('C03','count-finished-deps', T+'server/reactor.rs', "                if !task_dep.is_finished() {\n                    count += 1;\n                }", "                count += 1;"),
 ('C03','ready-without-zero-test', T+'server/reactor.rs', "        if t.decrease_unfinished_deps() {\n            task_queues.add_ready_task(t, &mut retracted);\n        }", "        t.decrease_unfinished_deps();\n        task_queues.add_ready_task(t, &mut retracted);"),
 ('C05','finish-keeps-reservation', T+'server/reactor.rs', "                assert_eq!(*w_id, worker_id);\n                worker_map\n                    .get_worker_mut(worker_id)\n                    .remove_sn_task(task_id, rqv.get(*rv_id));\n            }\n            TaskRuntimeState::RunningMultiNode(ws) => {\n                assert_eq!(ws[0], worker_id);\n                reset_mn_task_workers(worker_map, ws, task_id);", "                assert_eq!(*w_id, worker_id);\n                let _ = rqv.get(*rv_id);\n            }\n            TaskRuntimeState::RunningMultiNode(ws) => {\n                assert_eq!(ws[0], worker_id);\n                reset_mn_task_workers(worker_map, ws, task_id);"),
 ('C06','retract-response-any-state', T+'server/reactor.rs', "            log::debug!(\"Retracted task {task_id} is in invalid state\");\n            continue;", "            log::debug!(\"Retracted task {task_id} is in invalid state\");"),
 ('C07','loss-announced-after-penalties', T+'server/reactor.rs', "    comm.client()\n        .on_worker_lost(worker_id, &running_tasks, reason);\n\n    for task_id in running_tasks {", "    let running_copy = running_tasks.clone();\n    for task_id in running_tasks {"),
 ('C07','crash-limit-off-by-one', T+'server/task.rs', "CrashLimit::MaxCrashes(count) => self.crash_counter >= count as u32,", "CrashLimit::MaxCrashes(count) => self.crash_counter > count as u32,"),
 ('C08','prefilled-cancel-not-sent', T+'server/reactor.rs', "                    worker_map.get_worker_mut(w_id).remove_prefill_task(task_id);\n                    running_ids.entry(w_id).or_default().push(task_id);", "                    worker_map.get_worker_mut(w_id).remove_prefill_task(task_id);"),
 ('C10','openjob-not-flushed', H+'server/client/mod.rs', "                        let response = handle_open_job(&state_ref, senders, job_description);\n                        if !response.is_error() {\n                            senders.events.flush_journal().await;\n                        };\n                        response", "                        handle_open_job(&state_ref, senders, job_description)"),
 ('C10','flush-without-sync', H+'server/event/journal/write.rs', "        self.file.get_ref().sync_data()?;\n", ""),
 ('C11','worker-mark-not-max', H+'server/restore.rs', "self.max_worker_id = self.max_worker_id.max(worker_id.as_num());", "self.max_worker_id = worker_id.as_num();"),
 ('C12','keep-empty-batch', H+'server/event/journal/prune.rs', "                (!task_ids.is_empty()).then_some(event)", "                Some(event)"),
 ('C13','cancel-keeps-running-count', H+'server/job.rs', "                        cancelled_date: now,\n                    };\n                    self.counters.n_running_tasks -= 1;\n                }\n                JobTaskState::Waiting => {\n                    task.state = JobTaskState::Canceled {", "                        cancelled_date: now,\n                    };\n                }\n                JobTaskState::Waiting => {\n                    task.state = JobTaskState::Canceled {"),
 ('C14','limit-inclusive', H+'server/state.rs', "&& job.counters.n_failed_tasks > *max_fails", "&& job.counters.n_failed_tasks >= *max_fails"),
 ('C16','grant-couples-every-groups-entry', T+'worker/resources/allocator.rs', "            if let ResourcePool::Groups(_) = pool\n                && entry.request.is_relevant_for_coupling()\n            {\n                coupling.push(entry);\n                continue;\n            }", "            if let ResourcePool::Groups(_) = pool\n                && !matches!(entry.request, crate::internal::common::resources::request::AllocationRequest::All)\n            {\n                coupling.push(entry);\n                continue;\n            }"),
 ('C17','failed-submit-keeps-going', H+'server/autoalloc/process.rs', "                        queue.limiter_mut().on_submission_fail();\n                        break;\n                    }\n                }\n            }", "                        queue.limiter_mut().on_submission_fail();\n                    }\n                }\n            }"),
 ('C18','finished-allocation-revived', H+'server/autoalloc/process.rs', "                AllocationState::Finished { .. } | AllocationState::FinishedUnexpectedly { .. } => {\n                    log::warn!(\n                        \"Allocation {allocation_id} has status {:?} and does not expect new workers\",\n                        allocation.status\n                    );\n                    None\n                }", "                AllocationState::Finished { .. } | AllocationState::FinishedUnexpectedly { .. } => {\n                    allocation.status = AllocationState::Running {\n                        connected_workers: Set::from_iter([worker_id]),\n                        disconnected_workers: Default::default(),\n                        started_at: AbsoluteTime::now(),\n                        status_error_count: 0,\n                    };\n                    None\n                }"),
 ('C19','writer-per-task', H+'worker/streamer.rs', "        let sender = if let Some(ref mut info) = self.streams.get_mut(stream_path) {\n            info.sender.clone()\n        } else {", "        let sender = {"),
 ('C20','challenge-not-stored', T+'transfer/auth.rs', "            self.challenge.clone_from(&challenge);\n", ""),
 ('C04','release-skips-summary', T+'worker/resources/allocator.rs', "        self.free_resources.add(&allocation);\n        self.release_allocation_helper(&allocation);", "        self.release_allocation_helper(&allocation);"),
 ('C09','borrow-across-await', H+'server/client/mod.rs', "    if let Some(receiver) = senders.events.prune_journal(live_jobs, live_workers) {\n        let _ = receiver.await;\n    }\n    ToClientMessage::Finished", "    let guard = state_ref.get();\n    if let Some(receiver) = senders.events.prune_journal(live_jobs, live_workers) {\n        let _ = receiver.await;\n    }\n    drop(guard);\n    ToClientMessage::Finished"),
 ('C01','finished-for-canceled', T+'worker/reactor.rs', "        Ok(TaskResult::Canceled) => {\n            log::debug!(\"Inner task canceled id={task_id}\");\n        }", "        Ok(TaskResult::Canceled) => {\n            log::debug!(\"Inner task canceled id={task_id}\");\n            task_updates.push(WorkerTaskUpdate::Finished { task_id });\n        }"),
 ('C13','id-issued-before-validation', H+'server/client/submit.rs', "    let mut state = state_ref.get_mut();\n    if let Some(err) = validate_submit(", "    let mut state = state_ref.get_mut();\n    let _reserved = state.new_job_id();\n    if let Some(err) = validate_submit("),
]
def main():
    scratch='/tmp/mutgen/repo'
    shutil.rmtree(scratch, ignore_errors=True)
    subprocess.check_call(['rsync','-a','--exclude','target','--exclude','.git',REPO+'/',scratch+'/'])
    os.makedirs(OUT, exist_ok=True)
    for prop,name,f,old,new in M:
        p=os.path.join(scratch,f)
        s=open(p).read()
        if s.count(old)!=1:
            print('SKIP (anchor count %d)'%s.count(old), prop, name); continue
        open(p,'w').write(s.replace(old,new))
        d=subprocess.run(['diff','-u','--label','a/'+f,'--label','b/'+f,os.path.join(REPO,f),p],stdout=subprocess.PIPE,text=True).stdout
        open(os.path.join(OUT,f'{prop}-{name}.patch'),'w').write(d)
        open(p,'w').write(s)
        print('ok',prop,name)
    shutil.rmtree(scratch, ignore_errors=True)
main()
