#!/usr/bin/env python3
"""Freezes the set of function paths of the current /repo tree into tables/known_functions.json.  The program model inlines
only single-call-site helpers that are NOT in this set (i.e. helpers created by a later refactoring), so that today's analyses
see exactly today's functions while an "extract helper" change stays transparent."""
import json, os, sys
HERE = os.path.dirname(os.path.dirname(os.path.abspath(__file__)))
sys.path.insert(0, os.path.join(HERE, 'rules'))
from hqrules import extract
prog = extract.load_program('/repo')
fns = sorted(p for p, b in prog.bodies.items() if b.kind in ('fn', 'method'))
json.dump(dict(_comment='function paths of the tree at the time the rules were written (see DESIGN 10.6); regenerate with tools/gen_known_functions.py', functions=fns),
          open(os.path.join(HERE, 'tables', 'known_functions.json'), 'w'), indent=0)
print(len(fns))
