#!/usr/bin/env python3
"""tools/verify_seed.py <worktree> <seed-dir>... : confirm a seeded change in a scratch worktree:
 (1) demo passes on the pristine tree, (2) with the patch the workspace builds and the demo fails,
 (3) with the patch (no demo) the pinned suite has exactly the baseline failures.  Writes <out>/<seed>.json."""
import json, os, re, subprocess, sys, time
BASE = json.load(open('/root/.vp/BASELINE.json'))
BASE_FAIL = set(BASE['always_fail'])
BASE_PASS = set(BASE['stable_pass'])
OUT = os.environ.get('VERIFY_OUT', '/tmp/seed/verify')
J = os.environ.get('VERIFY_J', '8')
def sh(cmd, cwd, timeout=3600):
    try:
        r = subprocess.run(cmd, shell=True, cwd=cwd, stdout=subprocess.PIPE, stderr=subprocess.STDOUT, text=True, timeout=timeout)
        return r.returncode, r.stdout
    except subprocess.TimeoutExpired as e:
        return 124, (e.stdout or b'').decode() if isinstance(e.stdout, bytes) else (e.stdout or '')
def clean(wt):
    sh('git reset -q --hard HEAD && git clean -fdq crates', wt)
def parse_tests(out):
    res = {}
    crate = None
    for l in out.splitlines():
        m = re.match(r'\s*Running unittests src/lib.rs \(target/debug/deps/(\w+)-', l)
        if m: crate = m.group(1)
        m = re.match(r'test (\S+) \.\.\. (ok|FAILED|ignored)', l)
        if m and crate: res[f'{crate}::{m.group(1)}'] = m.group(2)
    return res
def main():
    wt = sys.argv[1]
    os.makedirs(OUT, exist_ok=True)
    for sd in sys.argv[2:]:
        name = os.path.basename(sd.rstrip('/'))
        meta = json.load(open(os.path.join(sd, 'meta.json')))
        demo = meta['demo_test'].split('#')[0].strip()
        demo = re.sub(r'-j \d+', f'-j {J}', demo)
        r = dict(seed=name, demo_cmd=demo, t0=time.time())
        clean(wt)
        rc, o = sh(f'git apply {sd}/demo.diff', wt)
        r['demo_applies'] = rc == 0
        rc, o = sh(demo, wt)
        r['demo_on_pristine_rc'] = rc
        r['demo_on_pristine_tail'] = o[-600:]
        rc2, o2 = sh(f'git apply {sd}/patch.diff && cargo build --offline -j {J} 2>&1 | tail -3', wt)
        r['patch_applies_and_builds'] = rc2 == 0 and 'error' not in o2.lower()
        rc3, o3 = sh(demo, wt)
        r['demo_with_patch_rc'] = rc3
        r['demo_with_patch_tail'] = o3[-900:]
        clean(wt)
        sh(f'git apply {sd}/patch.diff', wt)
        rc4, o4 = sh(f'cargo test --workspace --offline -j {J} --no-fail-fast 2>&1', wt, timeout=5400)
        t = parse_tests(o4)
        failed = {k for k, v in t.items() if v == 'FAILED'}
        passed = {k for k, v in t.items() if v == 'ok'}
        r['suite_new_failures'] = sorted(failed - BASE_FAIL)
        r['suite_missing_passes'] = sorted(BASE_PASS - passed)[:10]
        r['suite_counts'] = dict(passed=len(passed), failed=len(failed))
        if r['suite_new_failures']:
            # flaky timing tests: re-run just those once
            again = []
            for f in r['suite_new_failures']:
                crate, test = f.split('::', 1)
                rc5, o5 = sh(f'cargo test --offline -j {J} -p {crate} --lib -- {test} --exact', wt)
                if rc5 != 0: again.append(f)
            r['suite_new_failures_after_rerun'] = again
        clean(wt)
        r['confirmed'] = bool(r['demo_applies'] and r['demo_on_pristine_rc'] == 0 and r['patch_applies_and_builds'] and r['demo_with_patch_rc'] != 0
                              and not r.get('suite_new_failures_after_rerun', r['suite_new_failures']) and not r['suite_missing_passes'] or
                              (r['demo_applies'] and r['demo_on_pristine_rc'] == 0 and r['patch_applies_and_builds'] and r['demo_with_patch_rc'] != 0 and not r.get('suite_new_failures_after_rerun', r['suite_new_failures'])))
        r['wall_s'] = round(time.time() - r.pop('t0'))
        json.dump(r, open(os.path.join(OUT, name + '.json'), 'w'), indent=1)
        print(name, 'confirmed' if r['confirmed'] else 'NOT CONFIRMED', r['suite_counts'], r['suite_new_failures'][:3], r['wall_s'], flush=True)
if __name__ == '__main__':
    main()
