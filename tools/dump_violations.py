#!/usr/bin/env python3
import os, sys, json
HERE = os.path.dirname(os.path.dirname(os.path.abspath(__file__)))
sys.path.insert(0, os.path.join(HERE, 'rules'))
from hqrules import runner, extract
import importlib
prog = extract.load_program(os.environ.get('VERIF_REPO', '/repo'))
out = []
for f in sorted(os.listdir(os.path.join(HERE, 'rules', 'props'))):
    if not (f.startswith('C') and f.endswith('.py') and len(f) == 6): continue
    pid = f[:-3]
    mod = importlib.import_module('props.' + pid)
    ctx = runner.Ctx(pid, prog, 'quick', 0)
    try:
        mod.run(ctx)
    except Exception as e:
        print(pid, 'ERROR', e); continue
    for o in ctx.obs:
        if not o['ok']:
            out.append(dict(property=pid, rule=o['rule'], key=o['key'], site=o['site'], what=o['what']))
print(json.dumps(out, indent=1))
