#!/usr/bin/env python3
"""Regenerates /verif/MANIFEST.json from the rule modules present in rules/props (run after adding a module)."""
import ast, importlib, json, os, sys
HERE = os.path.dirname(os.path.dirname(os.path.abspath(__file__)))
sys.path.insert(0, os.path.join(HERE, 'rules'))
TITLES = {}
for l in open(os.path.join(HERE, 'properties.jsonl')):
    p = json.loads(l); TITLES[p['id']] = p['title']
NA = {}   # property -> reason (filled below for properties without a module or explicitly declined)
NA_FILE = os.path.join(HERE, 'tables', 'not_applicable.json')
if os.path.exists(NA_FILE):
    NA = json.load(open(NA_FILE))
checks = []
na = []
for pid in sorted(TITLES):
    path = os.path.join(HERE, 'rules', 'props', pid + '.py')
    if pid in NA or not os.path.exists(path):
        na.append(dict(property_id=pid, reason=NA.get(pid, 'rule module not built yet; no claim is made (static-analysis family)')))
        continue
    m = importlib.import_module('props.' + pid)
    nd = '; '.join(getattr(m, 'NOT_DECIDED', []))
    # the rule texts declared by the module (ctx.rule('Rxx.y', '...')), so that the claim lists every clause that is decided
    rules = []
    for node in ast.walk(ast.parse(open(path).read())):
        if isinstance(node, ast.Call) and isinstance(node.func, ast.Attribute) and node.func.attr == 'rule' and len(node.args) == 2 and isinstance(node.args[0], ast.Constant):
            txt = node.args[1]
            try:
                t = ast.literal_eval(txt)
            except Exception:
                t = ''.join(x.value for x in ast.walk(txt) if isinstance(x, ast.Constant) and isinstance(x.value, str))
            rules.append((node.args[0].value, ' '.join(str(t).split())[:230]))
    rules.sort(key=lambda r: [int(x) if x.isdigit() else x for x in r[0].replace('R', '').split('.')])
    rel = getattr(m, 'RELATED', {}) or {}
    rule_txt = ' Rules evaluated: ' + ' | '.join(f'{r}: {t}' for r, t in rules) + ((' | shared with sibling properties: ' + ', '.join(f'{k}:{"/".join(x.split("~")[0] for x in v)}' for k, v in rel.items())) if rel else '')
    checks.append(dict(
        property_id=pid,
        quick_cmd=f'./check {pid} --tier quick',
        thorough_cmd=f'./check {pid} --tier thorough',
        evidence_file=f'/verif/evidence/{pid}.json',
        replay_cmd_template='./check ' + pid + ' --replay {path}',
        engine='hqmir+hqrules',
        technique=getattr(m, 'TECHNIQUE', 'custom MIR lints (rustc_private fact extractor): arm-effect typestate tables, guard dominance / must-pass-through on the CFG, who-may-call/construct/write, taint, no-await-between'),
        level_claimed=dict(category='other', design_ref=f'DESIGN.md section 4 ({pid})',
                           text=('Static analysis of the type-checked program (built MIR of tako + hyperqueue, all paths, every run re-extracted from /repo). '
                                 'Decides structural NECESSARY conditions of the property, not the behaviour as a whole: ' + m.EXPLANATION + rule_txt)),
        level_note=('Decides only the listed clauses; NOT decided: ' + (nd or 'n/a') + '. Trusted base: rustc MIR construction and callee resolution; '
                    'class-hierarchy expansion of trait calls; hand-written semantic tables with reasons (rules/props, tables/); '
                    'single-threaded executor assumption for await-based rules; ' + '; '.join(getattr(m, 'ASSUMPTIONS', [])))))
man = dict(
    version=1,
    setup_cmd='cd /verif/driver && CARGO_NET_OFFLINE=true cargo +nightly build --release --offline && cd /verif && ./check warm',
    hooks=dict(guard='hq_verif', enable='no hooks: the checks analyse the unmodified sources (cargo +nightly check with RUSTC_WORKSPACE_WRAPPER=hqmir)',
               baseline_off_cmd='cd /repo && cargo test --workspace --no-fail-fast --offline', source_commits=[], add_only=True),
    engines=[dict(name='hqmir+hqrules', path='/verif/driver + /verif/rules', serves_properties=[c['property_id'] for c in checks],
                  kind_free_text='rustc_private MIR fact extractor (nightly) + Python rule library: CFG, dominators, enum-variant dataflow (arm guards), effect summaries over the call graph, taint, await analysis')],
    checks=checks,
    not_applicable=na,
    notes='Static-analysis family only. Exit codes: 0 held (known findings printed as KNOWN-FINDING), 1 violation, 1 also when a construct a rule is anchored in can no longer be found (rule ANCHOR), 2 no verdict (the tree does not build / facts cannot be extracted), 3 thorough self-test missed a seeded or mutant patch. Known findings: /verif/known_findings.json.')
json.dump(man, open(os.path.join(HERE, 'MANIFEST.json'), 'w'), indent=1)
print('checks', len(checks), 'not_applicable', [x['property_id'] for x in na])
