#!/usr/bin/env python3
"""tools/gen_design_tables.py : regenerate the generated blocks of DESIGN.md (between `<!-- GEN:<name> -->` and
`<!-- /GEN:<name> -->` markers) from seeded/RESULTS.json, seeded/*/meta.json, benign/RESULTS.json, evidence/*.json."""
import glob, json, os, re, subprocess
HERE = os.path.dirname(os.path.dirname(os.path.abspath(__file__)))


def block(s, name, body):
    a, b = f'<!-- GEN:{name} -->', f'<!-- /GEN:{name} -->'
    if a not in s:
        return s
    i, j = s.index(a) + len(a), s.index(b)
    return s[:i] + '\n' + body.rstrip('\n') + '\n' + s[j:]


def seeds_table(prefix):
    res = json.load(open(os.path.join(HERE, 'seeded', 'RESULTS.json')))
    rows = ['| seed | change | needs to manifest | verdict | caught by |', '|---|---|---|---|---|']
    n = det = 0
    for d in sorted(glob.glob(os.path.join(HERE, 'seeded', prefix + '*'))):
        name = os.path.basename(d)
        mp = os.path.join(d, 'meta.json')
        if not os.path.exists(mp):
            continue
        m = json.load(open(mp))
        r = res.get(name, {})
        v = r.get('verdict', '?')
        n += 1
        det += v == 'DETECTED'
        rules = sorted({re.sub(r'^(C\d\d):C\d\d-((?:C\d\d\.)?(?:R\d\d\.\d+|ANCHOR)).*', r'\2', x) for x in r.get('new_violations', [])})
        exp = m.get('expected', {})
        verdict = 'detected' if v == 'DETECTED' else ('**missed** (documented: ' + exp.get('reason', 'value-level')[:90] + ')' if isinstance(exp, dict) and exp.get('detected') is False else '**missed**')
        cell = lambda t: re.sub(r'\s+', ' ', t).replace('|', '/')
        rows.append(f'| {name} | {cell(m.get("summary", ""))[:170]} | {cell(m.get("needs_to_manifest", ""))[:110]} | {verdict} | {", ".join(rules) or "—"} |')
    return '\n'.join(rows), n, det


def main():
    p = os.path.join(HERE, 'DESIGN.md')
    s = open(p).read()
    t2, n2, d2 = seeds_table('r2-')
    s = block(s, 'R2TABLE', t2)
    s = block(s, 'R2SUMMARY', f'**{d2} of {n2} detected** (`tools/seedtest`, `seeded/RESULTS.json`)')
    if glob.glob(os.path.join(HERE, 'seeded', 'r3-*')):
        t3, n3, d3 = seeds_table('r3-')
        s = block(s, 'R3TABLE', t3)
        s = block(s, 'R3SUMMARY', f'**{d3} of {n3} detected**')
    if glob.glob(os.path.join(HERE, 'seeded', 'r4-*')):
        t4, n4, d4 = seeds_table('r4-')
        s = block(s, 'R4TABLE', t4)
        s = block(s, 'R4SUMMARY', f'**{d4} of {n4} detected**')
    # benign
    bp = os.path.join(HERE, 'benign', 'RESULTS.json')
    if os.path.exists(bp):
        br = json.load(open(bp))
        rows = ['| patch | refactoring | all 20 checks |', '|---|---|---|']
        for name in sorted(br):
            mp = os.path.join(HERE, 'benign', name, 'meta.json')
            summ = ''
            if os.path.exists(mp):
                summ = json.load(open(mp)).get('summary', '')
            rows.append(f'| {name} | {re.sub(chr(10), " ", summ).replace("|", "/")[:200]} | {"silent" if not br[name] else "ALARM " + str(br[name])[:120]} |')
        s = block(s, 'BENIGN', '\n'.join(rows))
    # totals
    tot = []
    nob = nk = 0
    for e in sorted(glob.glob(os.path.join(HERE, 'evidence', 'C*.json'))):
        ev = json.load(open(e))
        c = ev['coverage']
        nob += c['obligations']
        nk += len(c.get('known_findings', []))
        tot.append(f'| {ev["property_id"]} | {len(c["rules"])} | {c["obligations"]} | {c["discharged"]} | {len(c.get("known_findings", []))} | {ev["wall_s"]} |')
    nfix = subprocess.run('git -C /repo log --oneline | grep -c " fix:"', shell=True, stdout=subprocess.PIPE, text=True).stdout.strip()
    s = block(s, 'TOTALS', f'{nob} obligations over all modules on the repaired tree ({nfix} `fix:` commits), {nk} known-finding instances (imports counted once per importing property), 0 unlisted violations.\n\n'
              '| property | rules | obligations | held | known | wall s (quick, cache hit) |\n|---|---|---|---|---|---|\n' + '\n'.join(tot))
    open(p, 'w').write(s)


if __name__ == '__main__':
    main()
