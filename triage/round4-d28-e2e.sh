#!/bin/bash
# usage: e2e.sh <hq binary> <rounds>
HQ=$(readlink -f $1); ROUNDS=${2:-20}
D=$(mktemp -d /tmp/d28-e2e/run.XXXX)
export HQ_SERVER_DIR=$D/sd
cd $D
RUST_LOG=info $HQ server start >server.log 2>&1 &
SPID=$!
sleep 1.5
RUST_LOG=hyperqueue=debug,tako=debug $HQ worker start --cpus 8 >worker.log 2>&1 &
WPID=$!
sleep 1.5
for i in $(seq 1 $ROUNDS); do
  $HQ submit --stream=$D/stream$i --array 1-400 -- bash -c 'echo hello' >/dev/null 2>&1
  # cancel while the tasks are being processed
  sleep 0.$((RANDOM % 5 + 2))
  $HQ job cancel last >/dev/null 2>&1
  if ! kill -0 $WPID 2>/dev/null; then echo "round $i: WORKER DIED"; break; fi
done
sleep 0.5
if kill -0 $WPID 2>/dev/null; then echo "worker alive after $ROUNDS rounds"; fi
grep -n "panicked" -A3 worker.log | head -20
$HQ server stop >/dev/null 2>&1
sleep 0.5
kill $WPID $SPID 2>/dev/null
wait 2>/dev/null
echo "dir: $D"
