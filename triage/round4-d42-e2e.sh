#!/bin/bash
# usage: run.sh <hq-binary> <tag>
HQ=$1; TAG=$2
D=/tmp/d42-e2e/$TAG; rm -rf $D; mkdir -p $D; cp /tmp/d42-e2e/journal.orig $D/journal
export HQ_SERVER_DIR=$D/sd RUST_BACKTRACE=0
RUST_LOG=hyperqueue=debug $HQ server start --journal $D/journal > $D/server1.log 2>&1 &
SPID=$!
for i in $(seq 50); do $HQ server info >/dev/null 2>&1 && break; sleep 0.2; done
echo "--- client asks for history and goes away (hq journal stream | head -1)"
$HQ journal stream 2>/dev/null | head -1 | cut -c1-80
sleep 2
echo "--- acknowledged submit + explicit flush"
$HQ submit -- true; echo "submit rc=$?"
$HQ journal flush; echo "flush rc=$?"
$HQ job list --all 2>&1 | tail -4
echo "--- server log (journal thread)"
grep -i "streaming\|queue has been closed" $D/server1.log | sort | uniq -c | head
echo "--- crash (SIGKILL) and restart from the journal"
kill -9 $SPID; wait $SPID 2>/dev/null
rm -rf $D/sd
$HQ server start --journal $D/journal > $D/server2.log 2>&1 &
SPID=$!
for i in $(seq 50); do $HQ server info >/dev/null 2>&1 && break; sleep 0.2; done
$HQ job list --all 2>&1 | tail -4
$HQ server stop >/dev/null 2>&1; wait $SPID 2>/dev/null
