#!/bin/bash
# usage: run.sh <tag> ; journal limited by RLIMIT_FSIZE=16 blocks, SIGXFSZ ignored => write gives EFBIG
HQ=/tmp/tC/target/debug/hq
tag=$1
cd /tmp/d46e2e
rm -rf sd-$tag j-$tag.bin
export RUST_BACKTRACE=0
rm -f code-$tag
( ( trap '' XFSZ; ulimit -f 16; $HQ server start --server-dir sd-$tag --journal j-$tag.bin --journal-flush-period 1h 2>&1; echo $? > code-$tag ) | cat > out-$tag.server ) &
sleep 1.5
acked=0
for i in $(seq 1 40); do
  if timeout 10 $HQ --server-dir sd-$tag submit --name "job$i-$(printf 'x%.0s' $(seq 1 400))" -- true > out-$tag.submit.$i 2>&1; then acked=$i; else echo "submit $i failed: $(head -c 300 out-$tag.submit.$i | tr '\n' ' ')"; break; fi
done
echo "last acknowledged submit: $acked"
sleep 1
if [ ! -s code-$tag ]; then echo "server still RUNNING"; timeout 10 $HQ --server-dir sd-$tag server stop; sleep 1; fi; echo "server EXITED with code $(cat code-$tag)"
sleep 0.5
grep -i "journal\|streaming" out-$tag.server | head -5
ls -l j-$tag.bin
$HQ journal export j-$tag.bin 2>/dev/null | grep -c '"job-created"\|job-created' 
