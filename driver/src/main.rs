// hqmir — rustc_private fact extractor for the HyperQueue static checks.
//
// Installed as RUSTC_WORKSPACE_WRAPPER under `cargo +nightly check`. For every crate whose
// name is listed in $HQMIR_CRATES it dumps, as one JSON file per (crate, crate-type) under
// $HQMIR_OUT:
//   * all local ADTs (+ every foreign enum whose discriminant is read) with variants,
//     discriminant values, field names and field types,
//   * all local trait impls (trait item -> impl item),
//   * for every body owner the *built* MIR (`mir_built`: keeps `Yield`, match decision trees
//     and scope-exit drops): locals, debug names, blocks, statements, terminators with the
//     callee resolved through `Instance::try_resolve`,
//   * optionally (HQMIR_ELAB=prefix,prefix) the drop-elaborated MIR of bodies whose path
//     starts with one of the prefixes.
// Nothing is analysed here; all rules live in /verif/rules (Python).
#![feature(rustc_private)]
#![allow(clippy::all)]

extern crate rustc_abi;
extern crate rustc_driver;
extern crate rustc_hir;
extern crate rustc_interface;
extern crate rustc_middle;
extern crate rustc_span;

use std::collections::BTreeMap;
use std::fmt::Write as _;

use rustc_driver::{Callbacks, Compilation};
use rustc_hir::def::DefKind;
use rustc_hir::def_id::{DefId, LOCAL_CRATE};
use rustc_interface::interface::Compiler;
use rustc_middle::mir::{
    self, AggregateKind, BasicBlock, Body, Operand, Place, ProjectionElem, Rvalue, StatementKind,
    TerminatorKind,
};
use rustc_middle::mir::PlaceTy;
use rustc_middle::ty::print::{with_crate_prefix, with_no_trimmed_paths, with_no_visible_paths};
use rustc_middle::ty::{self, Instance, Ty, TyCtxt, TypingEnv};
use rustc_span::{ExpnKind, Span};

// ---------------------------------------------------------------- JSON helpers

fn jstr(out: &mut String, s: &str) {
    out.push('"');
    for c in s.chars() {
        match c {
            '"' => out.push_str("\\\""),
            '\\' => out.push_str("\\\\"),
            '\n' => out.push_str("\\n"),
            '\r' => out.push_str("\\r"),
            '\t' => out.push_str("\\t"),
            c if (c as u32) < 0x20 => {
                let _ = write!(out, "\\u{:04x}", c as u32);
            }
            c => out.push(c),
        }
    }
    out.push('"');
}

fn jopt(out: &mut String, s: Option<&str>) {
    match s {
        Some(s) => jstr(out, s),
        None => out.push_str("null"),
    }
}

struct Cx<'tcx> {
    tcx: TyCtxt<'tcx>,
    krate: String,
    enums: BTreeMap<String, String>, // path -> json of foreign/local enums seen in discriminant reads
}

fn fix_crate(krate: &str, s: String) -> String {
    // with_crate_prefix! prints local paths as `crate::a::b`; replace the token by the crate name
    if !s.contains("crate::") {
        return s;
    }
    let mut out = String::with_capacity(s.len() + 8);
    let b = s.as_bytes();
    let mut i = 0;
    while i < b.len() {
        if s[i..].starts_with("crate::")
            && (i == 0 || !(b[i - 1].is_ascii_alphanumeric() || b[i - 1] == b'_'))
        {
            out.push_str(krate);
            out.push_str("::");
            i += 7;
        } else {
            let ch = s[i..].chars().next().unwrap();
            out.push(ch);
            i += ch.len_utf8();
        }
    }
    out
}

impl<'tcx> Cx<'tcx> {
    fn path(&self, def_id: DefId) -> String {
        let s = with_no_trimmed_paths!(with_no_visible_paths!(with_crate_prefix!(self.tcx.def_path_str(def_id))));
        fix_crate(&self.krate, s)
    }

    fn ty_str(&self, ty: Ty<'tcx>) -> String {
        let s = with_no_trimmed_paths!(with_no_visible_paths!(with_crate_prefix!(format!("{}", ty))));
        fix_crate(&self.krate, s)
    }

    fn adt_of(&self, ty: Ty<'tcx>) -> Option<String> {
        let mut t = ty;
        loop {
            match t.kind() {
                ty::Ref(_, inner, _) => t = *inner,
                ty::RawPtr(inner, _) => t = *inner,
                ty::Adt(def, _) => return Some(self.path(def.did())),
                _ => return None,
            }
        }
    }

    fn span_json(&self, out: &mut String, span: Span) {
        // "l": line of the outermost call site, "x": expansion backtrace (outermost last)
        let sm = self.tcx.sess.source_map();
        let cs = span.source_callsite();
        let line = if cs.is_dummy() { 0 } else { sm.lookup_char_pos(cs.lo()).line };
        let _ = write!(out, "\"l\":{}", line);
        if span.from_expansion() {
            let mut names: Vec<String> = Vec::new();
            for ed in span.macro_backtrace() {
                match ed.kind {
                    ExpnKind::Macro(_, name) => names.push(name.to_string()),
                    ExpnKind::Desugaring(k) => names.push(format!("desugar:{:?}", k)),
                    ExpnKind::AstPass(k) => names.push(format!("astpass:{:?}", k)),
                    ExpnKind::Root => {}
                }
            }
            out.push_str(",\"x\":");
            jstr(out, &names.join(">"));
        }
    }

    fn record_enum(&mut self, ty: Ty<'tcx>) -> Option<String> {
        if let ty::Adt(def, _) = ty.kind() {
            if def.is_enum() {
                let p = self.path(def.did());
                if !self.enums.contains_key(&p) {
                    let j = self.adt_json(def.did());
                    self.enums.insert(p.clone(), j);
                }
                return Some(p);
            }
        }
        None
    }

    fn adt_json(&self, did: DefId) -> String {
        let tcx = self.tcx;
        let def = tcx.adt_def(did);
        let mut out = String::new();
        out.push_str("{\"path\":");
        jstr(&mut out, &self.path(did));
        out.push_str(",\"kind\":");
        jstr(
            &mut out,
            if def.is_enum() {
                "enum"
            } else if def.is_union() {
                "union"
            } else {
                "struct"
            },
        );
        out.push_str(",\"local\":");
        out.push_str(if did.is_local() { "true" } else { "false" });
        out.push_str(",\"variants\":[");
        let discrs: Vec<u128> = if def.is_enum() {
            def.discriminants(tcx).map(|(_, d)| d.val).collect()
        } else {
            vec![0]
        };
        for (i, v) in def.variants().iter().enumerate() {
            if i > 0 {
                out.push(',');
            }
            out.push_str("{\"name\":");
            jstr(&mut out, v.name.as_str());
            let _ = write!(out, ",\"discr\":{}", discrs.get(i).copied().unwrap_or(i as u128));
            out.push_str(",\"fields\":[");
            for (j, f) in v.fields.iter().enumerate() {
                if j > 0 {
                    out.push(',');
                }
                out.push('[');
                jstr(&mut out, f.name.as_str());
                out.push(',');
                let fty = tcx.type_of(f.did).instantiate_identity().skip_norm_wip();
                jstr(&mut out, &self.ty_str(fty));
                out.push(']');
            }
            out.push_str("]}");
        }
        out.push_str("]}");
        out
    }

    // ------------------------------------------------------------ MIR pieces

    fn place_json(&mut self, out: &mut String, body: &Body<'tcx>, place: Place<'tcx>) {
        let tcx = self.tcx;
        let _ = write!(out, "[{},[", place.local.as_usize());
        let mut pty = PlaceTy::from_ty(body.local_decls[place.local].ty);
        for (i, elem) in place.projection.iter().enumerate() {
            if i > 0 {
                out.push(',');
            }
            match elem {
                ProjectionElem::Deref => out.push_str("\"*\""),
                ProjectionElem::Field(f, _) => {
                    out.push_str("[\"f\",");
                    let _ = write!(out, "{},", f.as_usize());
                    match pty.ty.kind() {
                        ty::Adt(def, _) => {
                            let vi = pty.variant_index.unwrap_or(rustc_abi::FIRST_VARIANT);
                            let v = def.variant(vi);
                            let name = v
                                .fields
                                .get(f)
                                .map(|fd| fd.name.to_string())
                                .unwrap_or_else(|| f.as_usize().to_string());
                            jstr(out, &name);
                            out.push(',');
                            jstr(out, &self.path(def.did()));
                            out.push(',');
                            if def.is_enum() {
                                jstr(out, v.name.as_str());
                            } else {
                                out.push_str("null");
                            }
                        }
                        ty::Closure(did, _) | ty::Coroutine(did, _) | ty::CoroutineClosure(did, _) => {
                            // upvar
                            let name = did
                                .as_local()
                                .and_then(|ld| {
                                    tcx.closure_captures(ld)
                                        .get(f.as_usize())
                                        .map(|c| c.to_symbol().to_string())
                                })
                                .unwrap_or_else(|| f.as_usize().to_string());
                            jstr(out, &name);
                            out.push_str(",\"{upvar}\",null");
                        }
                        _ => {
                            jstr(out, &f.as_usize().to_string());
                            out.push_str(",null,null");
                        }
                    }
                    out.push(']');
                }
                ProjectionElem::Downcast(name, vi) => {
                    out.push_str("[\"d\",");
                    let n = match name {
                        Some(n) => n.to_string(),
                        None => match pty.ty.kind() {
                            ty::Adt(def, _) => def.variant(vi).name.to_string(),
                            _ => vi.as_usize().to_string(),
                        },
                    };
                    jstr(out, &n);
                    out.push(']');
                }
                ProjectionElem::Index(l) => {
                    let _ = write!(out, "[\"i\",{}]", l.as_usize());
                }
                ProjectionElem::ConstantIndex { offset, from_end, .. } => {
                    let _ = write!(out, "[\"ci\",{},{}]", offset, from_end);
                }
                ProjectionElem::Subslice { .. } => out.push_str("\"sub\""),
                ProjectionElem::OpaqueCast(_) => out.push_str("\"oc\""),
                ProjectionElem::UnwrapUnsafeBinder(_) => out.push_str("\"ub\""),
            }
            pty = pty.projection_ty(tcx, elem);
        }
        out.push_str("]]");
    }

    fn operand_json(&mut self, out: &mut String, body: &Body<'tcx>, op: &Operand<'tcx>) {
        match op {
            Operand::Copy(p) => {
                out.push_str("[\"c\",");
                self.place_json(out, body, *p);
                out.push(']');
            }
            Operand::Move(p) => {
                out.push_str("[\"m\",");
                self.place_json(out, body, *p);
                out.push(']');
            }
            Operand::Constant(c) => {
                out.push_str("[\"k\",");
                let ty = c.const_.ty();
                let disp = with_no_trimmed_paths!(with_no_visible_paths!(with_crate_prefix!(format!("{}", c.const_))));
                let disp = fix_crate(&self.krate, disp);
                let disp = if disp.len() > 200 { disp.chars().take(200).collect() } else { disp };
                jstr(out, &disp);
                out.push(',');
                let tys = self.ty_str(ty);
                let tys = if tys.len() > 300 { tys.chars().take(300).collect() } else { tys };
                jstr(out, &tys);
                out.push(',');
                match ty.kind() {
                    ty::FnDef(did, _) => jstr(out, &self.path(*did)),
                    ty::Closure(did, _) => jstr(out, &self.path(*did)),
                    _ => out.push_str("null"),
                }
                out.push(']');
            }
            #[allow(unreachable_patterns)]
            _ => out.push_str("[\"o\"]"),
        }
    }

    fn rvalue_json(&mut self, out: &mut String, body: &Body<'tcx>, rv: &Rvalue<'tcx>) {
        let tcx = self.tcx;
        match rv {
            Rvalue::Use(op, ..) => {
                out.push_str("[\"use\",");
                self.operand_json(out, body, op);
                out.push(']');
            }
            Rvalue::Ref(_, bk, p) => {
                out.push_str("[\"ref\",");
                jstr(
                    out,
                    match bk {
                        mir::BorrowKind::Shared => "shared",
                        mir::BorrowKind::Fake(_) => "fake",
                        mir::BorrowKind::Mut { .. } => "mut",
                    },
                );
                out.push(',');
                self.place_json(out, body, *p);
                out.push(']');
            }
            Rvalue::RawPtr(_, p) => {
                out.push_str("[\"rawptr\",");
                self.place_json(out, body, *p);
                out.push(']');
            }
            Rvalue::CopyForDeref(p) => {
                out.push_str("[\"cfd\",");
                self.place_json(out, body, *p);
                out.push(']');
            }
            Rvalue::BinaryOp(op, ab) => {
                out.push_str("[\"bin\",");
                jstr(out, &format!("{:?}", op));
                out.push(',');
                self.operand_json(out, body, &ab.0);
                out.push(',');
                self.operand_json(out, body, &ab.1);
                out.push(']');
            }
            Rvalue::UnaryOp(op, a) => {
                out.push_str("[\"un\",");
                jstr(out, &format!("{:?}", op));
                out.push(',');
                self.operand_json(out, body, a);
                out.push(']');
            }
            Rvalue::Discriminant(p) => {
                out.push_str("[\"discr\",");
                self.place_json(out, body, *p);
                out.push(',');
                let pty = p.ty(&body.local_decls, tcx).ty;
                let e = self.record_enum(pty);
                jopt(out, e.as_deref());
                out.push(']');
            }
            Rvalue::Cast(kind, op, ty) => {
                out.push_str("[\"cast\",");
                let k = format!("{:?}", kind);
                let k: String = k.chars().take(60).collect();
                jstr(out, &k);
                out.push(',');
                self.operand_json(out, body, op);
                out.push(',');
                jstr(out, &self.ty_str(*ty));
                out.push(']');
            }
            Rvalue::Aggregate(kind, ops) => {
                out.push_str("[\"agg\",");
                match &**kind {
                    AggregateKind::Adt(did, vi, _, _, active) => {
                        let def = tcx.adt_def(*did);
                        let v = def.variant(*vi);
                        out.push_str("[\"adt\",");
                        jstr(out, &self.path(*did));
                        out.push(',');
                        jstr(out, v.name.as_str());
                        out.push_str(",[");
                        if let Some(a) = active {
                            jstr(out, v.fields[*a].name.as_str());
                        } else {
                            for (i, f) in v.fields.iter().enumerate() {
                                if i > 0 {
                                    out.push(',');
                                }
                                jstr(out, f.name.as_str());
                            }
                        }
                        out.push_str("]]");
                    }
                    AggregateKind::Tuple => out.push_str("[\"tuple\"]"),
                    AggregateKind::Array(_) => out.push_str("[\"array\"]"),
                    AggregateKind::Closure(did, _) => {
                        out.push_str("[\"closure\",");
                        jstr(out, &self.path(*did));
                        out.push(']');
                    }
                    AggregateKind::Coroutine(did, _) => {
                        out.push_str("[\"coroutine\",");
                        jstr(out, &self.path(*did));
                        out.push(']');
                    }
                    AggregateKind::CoroutineClosure(did, _) => {
                        out.push_str("[\"coroutine_closure\",");
                        jstr(out, &self.path(*did));
                        out.push(']');
                    }
                    AggregateKind::RawPtr(..) => out.push_str("[\"rawptr\"]"),
                }
                out.push_str(",[");
                for (i, op) in ops.iter().enumerate() {
                    if i > 0 {
                        out.push(',');
                    }
                    self.operand_json(out, body, op);
                }
                out.push_str("]]");
            }
            Rvalue::Repeat(op, _) => {
                out.push_str("[\"repeat\",");
                self.operand_json(out, body, op);
                out.push(']');
            }
            other => {
                out.push_str("[\"other\",");
                let s = format!("{:?}", other);
                let s: String = s.chars().take(80).collect();
                jstr(out, &s);
                out.push(']');
            }
        }
    }

    fn bb(out: &mut String, key: &str, b: BasicBlock) {
        let _ = write!(out, ",\"{}\":{}", key, b.as_usize());
    }

    fn unwind(out: &mut String, u: &mir::UnwindAction) {
        if let mir::UnwindAction::Cleanup(b) = u {
            let _ = write!(out, ",\"uw\":{}", b.as_usize());
        }
    }

    fn term_json(
        &mut self,
        out: &mut String,
        body: &Body<'tcx>,
        tenv: TypingEnv<'tcx>,
        term: &mir::Terminator<'tcx>,
    ) {
        let tcx = self.tcx;
        out.push('{');
        match &term.kind {
            TerminatorKind::Goto { target } => {
                out.push_str("\"k\":\"goto\"");
                Self::bb(out, "t", *target);
            }
            TerminatorKind::SwitchInt { discr, targets } => {
                out.push_str("\"k\":\"sw\",\"op\":");
                self.operand_json(out, body, discr);
                out.push_str(",\"ty\":");
                let dty = discr.ty(&body.local_decls, tcx);
                jstr(out, &self.ty_str(dty));
                out.push_str(",\"ts\":[");
                for (i, (v, b)) in targets.iter().enumerate() {
                    if i > 0 {
                        out.push(',');
                    }
                    let _ = write!(out, "[{},{}]", v, b.as_usize());
                }
                out.push(']');
                Self::bb(out, "o", targets.otherwise());
            }
            TerminatorKind::Return => out.push_str("\"k\":\"ret\""),
            TerminatorKind::Unreachable => out.push_str("\"k\":\"unreach\""),
            TerminatorKind::UnwindResume => out.push_str("\"k\":\"resume\""),
            TerminatorKind::UnwindTerminate(_) => out.push_str("\"k\":\"abort\""),
            TerminatorKind::CoroutineDrop => out.push_str("\"k\":\"cdrop\""),
            TerminatorKind::Drop { place, target, unwind, .. } => {
                out.push_str("\"k\":\"drop\",\"p\":");
                self.place_json(out, body, *place);
                out.push_str(",\"ty\":");
                let pty = place.ty(&body.local_decls, tcx).ty;
                jstr(out, &self.ty_str(pty));
                Self::bb(out, "t", *target);
                Self::unwind(out, unwind);
            }
            TerminatorKind::Call { func, args, destination, target, unwind, .. } => {
                out.push_str("\"k\":\"call\"");
                let fty = func.ty(&body.local_decls, tcx);
                match fty.kind() {
                    ty::FnDef(did, gargs) => {
                        out.push_str(",\"fn\":");
                        jstr(out, &self.path(*did));
                        // resolved instance
                        let mut resolved: Option<String> = None;
                        if let Ok(gargs_n) = tcx.try_normalize_erasing_regions(tenv, ty::Unnormalized::new_wip(*gargs)) {
                            if let Ok(Some(inst)) = Instance::try_resolve(tcx, tenv, *did, gargs_n) {
                                let rd = inst.def_id();
                                if rd != *did {
                                    resolved = Some(self.path(rd));
                                }
                            }
                        }
                        if let Some(r) = resolved {
                            out.push_str(",\"rfn\":");
                            jstr(out, &r);
                        }
                        if !gargs.is_empty() {
                            out.push_str(",\"ta\":[");
                            for (i, a) in gargs.iter().enumerate() {
                                if i > 0 {
                                    out.push(',');
                                }
                                let s = with_no_trimmed_paths!(with_no_visible_paths!(with_crate_prefix!(format!("{}", a))));
                                let s = fix_crate(&self.krate, s);
                                let s: String = if s.len() > 300 { s.chars().take(300).collect() } else { s };
                                jstr(out, &s);
                            }
                            out.push(']');
                        }
                        // trait of the method, if any
                        if let Some(tr) = tcx.trait_of_assoc(*did) {
                            out.push_str(",\"tr\":");
                            jstr(out, &self.path(tr));
                        }
                    }
                    _ => {
                        out.push_str(",\"fp\":");
                        self.operand_json(out, body, func);
                        out.push_str(",\"fty\":");
                        let s = self.ty_str(fty);
                        let s: String = if s.len() > 300 { s.chars().take(300).collect() } else { s };
                        jstr(out, &s);
                    }
                }
                out.push_str(",\"args\":[");
                for (i, a) in args.iter().enumerate() {
                    if i > 0 {
                        out.push(',');
                    }
                    self.operand_json(out, body, &a.node);
                }
                out.push_str("],\"d\":");
                self.place_json(out, body, *destination);
                if let Some(t) = target {
                    Self::bb(out, "t", *t);
                }
                Self::unwind(out, unwind);
                // diverging?
                let dty = destination.ty(&body.local_decls, tcx).ty;
                if dty.is_never() {
                    out.push_str(",\"never\":true");
                }
            }
            TerminatorKind::TailCall { .. } => out.push_str("\"k\":\"tailcall\""),
            TerminatorKind::Assert { cond, expected, msg, target, unwind } => {
                out.push_str("\"k\":\"assert\",\"op\":");
                self.operand_json(out, body, cond);
                let _ = write!(out, ",\"exp\":{}", expected);
                out.push_str(",\"msg\":");
                let m = format!("{:?}", msg);
                let m: String = m.chars().take(40).collect();
                let m = m.split('(').next().unwrap_or("").to_string();
                jstr(out, &m);
                Self::bb(out, "t", *target);
                Self::unwind(out, unwind);
            }
            TerminatorKind::Yield { value, resume, resume_arg, drop } => {
                out.push_str("\"k\":\"yield\",\"op\":");
                self.operand_json(out, body, value);
                out.push_str(",\"ra\":");
                self.place_json(out, body, *resume_arg);
                Self::bb(out, "t", *resume);
                if let Some(d) = drop {
                    Self::bb(out, "dr", *d);
                }
            }
            TerminatorKind::FalseEdge { real_target, imaginary_target } => {
                out.push_str("\"k\":\"fe\"");
                Self::bb(out, "t", *real_target);
                Self::bb(out, "im", *imaginary_target);
            }
            TerminatorKind::FalseUnwind { real_target, unwind } => {
                out.push_str("\"k\":\"fu\"");
                Self::bb(out, "t", *real_target);
                Self::unwind(out, unwind);
            }
            TerminatorKind::InlineAsm { .. } => out.push_str("\"k\":\"asm\""),
        }
        out.push(',');
        self.span_json(out, term.source_info.span);
        out.push('}');
    }

    fn body_json(&mut self, out: &mut String, def_id: DefId, body: &Body<'tcx>, stage: &str) {
        let tcx = self.tcx;
        let tenv = TypingEnv::post_analysis(tcx, def_id);
        out.push_str("{\"path\":");
        jstr(out, &self.path(def_id));
        out.push_str(",\"stage\":");
        jstr(out, stage);
        out.push_str(",\"kind\":");
        let kind = tcx.def_kind(def_id);
        let kstr = match kind {
            DefKind::Fn => "fn",
            DefKind::AssocFn => "method",
            DefKind::Closure => {
                if tcx.is_coroutine(def_id) {
                    "coroutine"
                } else {
                    "closure"
                }
            }
            DefKind::Const { .. } | DefKind::AssocConst { .. } | DefKind::AnonConst | DefKind::InlineConst => "const",
            DefKind::Static { .. } => "static",
            _ => "other",
        };
        jstr(out, kstr);
        if matches!(kind, DefKind::Closure | DefKind::InlineConst | DefKind::AnonConst) {
            let parent = tcx.parent(def_id);
            out.push_str(",\"parent\":");
            jstr(out, &self.path(parent));
        }
        if matches!(kind, DefKind::AssocFn) {
            let parent = tcx.parent(def_id);
            if let DefKind::Impl { of_trait: true } = tcx.def_kind(parent) {
                let trait_ref = tcx.impl_trait_ref(parent);
                let tr = trait_ref.skip_binder();
                out.push_str(",\"impl_of\":");
                jstr(out, &self.path(tr.def_id));
                if let Some(ti) = tcx.associated_item(def_id).trait_item_def_id() {
                    out.push_str(",\"trait_item\":");
                    jstr(out, &self.path(ti));
                }
            }
        }
        let sm = tcx.sess.source_map();
        let sp = body.span;
        if !sp.is_dummy() {
            let lo = sm.lookup_char_pos(sp.lo());
            let hi = sm.lookup_char_pos(sp.hi());
            out.push_str(",\"file\":");
            let fname = format!("{}", lo.file.name.prefer_local_unconditionally());
            jstr(out, &fname);
            let _ = write!(out, ",\"line\":{},\"end\":{}", lo.line, hi.line);
        }
        let _ = write!(out, ",\"argc\":{}", body.arg_count);
        // locals
        out.push_str(",\"locals\":[");
        for (i, ld) in body.local_decls.iter().enumerate() {
            if i > 0 {
                out.push(',');
            }
            out.push('[');
            let s = self.ty_str(ld.ty);
            let s: String = if s.len() > 400 { s.chars().take(400).collect() } else { s };
            jstr(out, &s);
            out.push(',');
            let adt = self.adt_of(ld.ty);
            jopt(out, adt.as_deref());
            out.push(']');
        }
        out.push_str("],\"dbg\":[");
        let mut first = true;
        for vdi in body.var_debug_info.iter() {
            if let mir::VarDebugInfoContents::Place(p) = vdi.value {
                if !first {
                    out.push(',');
                }
                first = false;
                out.push('[');
                jstr(out, vdi.name.as_str());
                out.push(',');
                self.place_json(out, body, p);
                out.push(']');
            }
        }
        out.push_str("],\"blocks\":[");
        for (bi, bbd) in body.basic_blocks.iter().enumerate() {
            if bi > 0 {
                out.push(',');
            }
            let _ = write!(out, "{{\"c\":{},\"s\":[", if bbd.is_cleanup { 1 } else { 0 });
            let mut firsts = true;
            for st in bbd.statements.iter() {
                let mut s = String::new();
                match &st.kind {
                    StatementKind::Assign(b) => {
                        let (p, rv) = &**b;
                        s.push_str("{\"k\":\"a\",\"p\":");
                        self.place_json(&mut s, body, *p);
                        s.push_str(",\"rv\":");
                        self.rvalue_json(&mut s, body, rv);
                        s.push(',');
                        self.span_json(&mut s, st.source_info.span);
                        s.push('}');
                    }
                    StatementKind::SetDiscriminant { place, variant_index } => {
                        s.push_str("{\"k\":\"sd\",\"p\":");
                        self.place_json(&mut s, body, **place);
                        let pty = place.ty(&body.local_decls, tcx).ty;
                        let vn = match pty.kind() {
                            ty::Adt(def, _) => def.variant(*variant_index).name.to_string(),
                            _ => variant_index.as_usize().to_string(),
                        };
                        s.push_str(",\"v\":");
                        jstr(&mut s, &vn);
                        s.push(',');
                        self.span_json(&mut s, st.source_info.span);
                        s.push('}');
                    }
                    StatementKind::StorageLive(l) => {
                        let _ = write!(s, "{{\"k\":\"sl\",\"v\":{}}}", l.as_usize());
                    }
                    StatementKind::StorageDead(l) => {
                        let _ = write!(s, "{{\"k\":\"sx\",\"v\":{}}}", l.as_usize());
                    }
                    _ => {}
                }
                if !s.is_empty() {
                    if !firsts {
                        out.push(',');
                    }
                    firsts = false;
                    out.push_str(&s);
                }
            }
            out.push_str("],\"t\":");
            match &bbd.terminator {
                Some(t) => self.term_json(out, body, tenv, t),
                None => out.push_str("null"),
            }
            out.push('}');
        }
        out.push_str("]}");
    }
}

fn dump<'tcx>(tcx: TyCtxt<'tcx>, stage_elab: bool) {
    let krate = tcx.crate_name(LOCAL_CRATE).to_string();
    let wanted = std::env::var("HQMIR_CRATES").unwrap_or_else(|_| "tako,hyperqueue,hq,hqfix".into());
    if !wanted.split(',').any(|c| c == krate) {
        return;
    }
    let outdir = match std::env::var("HQMIR_OUT") {
        Ok(d) => d,
        Err(_) => return,
    };
    let elab_prefixes: Vec<String> = std::env::var("HQMIR_ELAB")
        .map(|s| s.split(',').filter(|x| !x.is_empty()).map(|x| x.to_string()).collect())
        .unwrap_or_default();
    if stage_elab && elab_prefixes.is_empty() {
        return;
    }
    let mut cx = Cx { tcx, krate: krate.clone(), enums: BTreeMap::new() };
    let mut out = String::with_capacity(64 << 20);
    let crate_types: Vec<String> = tcx.crate_types().iter().map(|c| format!("{:?}", c)).collect();
    out.push_str("{\"crate\":");
    jstr(&mut out, &krate);
    out.push_str(",\"crate_types\":");
    jstr(&mut out, &crate_types.join(","));
    out.push_str(",\"stage\":");
    jstr(&mut out, if stage_elab { "elab" } else { "built" });
    let mut n_bodies = 0usize;

    if !stage_elab {
        // ADTs + impls + fns
        out.push_str(",\"adts\":[");
        let mut first = true;
        let items = tcx.hir_crate_items(());
        for ld in items.definitions() {
            let did = ld.to_def_id();
            match tcx.def_kind(did) {
                DefKind::Struct | DefKind::Enum | DefKind::Union => {
                    if !first {
                        out.push(',');
                    }
                    first = false;
                    let j = cx.adt_json(did);
                    out.push_str(&j);
                }
                _ => {}
            }
        }
        out.push_str("],\"impls\":[");
        let mut first = true;
        for ld in items.definitions() {
            let did = ld.to_def_id();
            if let DefKind::Impl { of_trait: true } = tcx.def_kind(did) {
                let tr = tcx.impl_trait_ref(did).skip_binder();
                if !first {
                    out.push(',');
                }
                first = false;
                out.push_str("{\"trait\":");
                jstr(&mut out, &cx.path(tr.def_id));
                out.push_str(",\"self\":");
                jstr(&mut out, &cx.ty_str(tr.self_ty()));
                out.push_str(",\"self_adt\":");
                let a = cx.adt_of(tr.self_ty());
                jopt(&mut out, a.as_deref());
                out.push_str(",\"items\":[");
                let mut f2 = true;
                for it in tcx.associated_items(did).in_definition_order() {
                    if let Some(ti) = it.trait_item_def_id() {
                        if !f2 {
                            out.push(',');
                        }
                        f2 = false;
                        out.push('[');
                        jstr(&mut out, &cx.path(ti));
                        out.push(',');
                        jstr(&mut out, &cx.path(it.def_id));
                        out.push(']');
                    }
                }
                out.push_str("]}");
            }
        }
        out.push_str("],\"fns\":[");
        let mut first = true;
        for ld in items.definitions() {
            let did = ld.to_def_id();
            if matches!(tcx.def_kind(did), DefKind::Fn | DefKind::AssocFn) {
                if !first {
                    out.push(',');
                }
                first = false;
                out.push_str("{\"path\":");
                jstr(&mut out, &cx.path(did));
                out.push_str(",\"async\":");
                out.push_str(if tcx.asyncness(did).is_async() { "true" } else { "false" });
                out.push_str(",\"sig\":");
                let sig = tcx.fn_sig(did).instantiate_identity().skip_norm_wip();
                let s = with_no_trimmed_paths!(with_no_visible_paths!(with_crate_prefix!(format!("{}", sig))));
                let s = fix_crate(&krate, s);
                let s: String = if s.len() > 600 { s.chars().take(600).collect() } else { s };
                jstr(&mut out, &s);
                out.push_str(",\"has_body\":");
                out.push_str(if tcx.is_mir_available(did) || ld_has_body(tcx, did) { "true" } else { "false" });
                out.push('}');
            }
        }
        out.push(']');
    }

    out.push_str(",\"bodies\":[");
    let mut first = true;
    let owners: Vec<_> = tcx
        .hir_body_owners()
        .filter(|ld| matches!(tcx.def_kind(ld.to_def_id()), DefKind::Fn | DefKind::AssocFn | DefKind::Closure))
        .collect();
    if stage_elab {
        for ld in owners {
            let did = ld.to_def_id();
            let p = cx.path(did);
            if !elab_prefixes.iter().any(|pre| p.starts_with(pre.as_str())) {
                continue;
            }
            if tcx.is_coroutine(did) {
                continue;
            }
            let body = tcx.optimized_mir(did);
            if !first {
                out.push(',');
            }
            first = false;
            cx.body_json(&mut out, did, body, "elab");
            n_bodies += 1;
        }
    } else {
        // Clone every built body first: later queries (opaque-type reveal inside
        // Instance::try_resolve, closure_captures ...) may run borrowck on other bodies,
        // which steals their `mir_built`.
        let mut cloned: Vec<(DefId, Body<'tcx>)> = Vec::with_capacity(owners.len());
        for ld in owners {
            let steal = tcx.mir_built(ld);
            let body: Body<'tcx> = steal.borrow().clone();
            cloned.push((ld.to_def_id(), body));
        }
        for (did, body) in cloned.iter() {
            if !first {
                out.push(',');
            }
            first = false;
            cx.body_json(&mut out, *did, body, "built");
            n_bodies += 1;
        }
    }
    out.push_str("],\"enums\":[");
    let mut first = true;
    for (_, j) in cx.enums.iter() {
        if !first {
            out.push(',');
        }
        first = false;
        out.push_str(j);
    }
    let _ = write!(out, "],\"n_bodies\":{}}}", n_bodies);

    let ct = if crate_types.iter().any(|c| c == "Executable") { "bin" } else { "lib" };
    let test = if tcx.sess.opts.test { "-test" } else { "" };
    let fname = format!(
        "{}/{}-{}{}.{}.json",
        outdir,
        krate,
        ct,
        test,
        if stage_elab { "elab" } else { "built" }
    );
    let tmp = format!("{}.tmp{}", fname, std::process::id());
    std::fs::create_dir_all(&outdir).ok();
    std::fs::write(&tmp, out.as_bytes()).expect("hqmir: cannot write facts");
    std::fs::rename(&tmp, &fname).expect("hqmir: cannot rename facts");
}

fn ld_has_body(tcx: TyCtxt<'_>, did: DefId) -> bool {
    did.as_local().map(|l| tcx.hir_maybe_body_owned_by(l).is_some()).unwrap_or(false)
}

struct Cb;

impl Callbacks for Cb {
    fn after_expansion<'tcx>(&mut self, _c: &Compiler, tcx: TyCtxt<'tcx>) -> Compilation {
        dump(tcx, false);
        Compilation::Continue
    }
    fn after_analysis<'tcx>(&mut self, _c: &Compiler, tcx: TyCtxt<'tcx>) -> Compilation {
        dump(tcx, true);
        Compilation::Continue
    }
}

fn main() {
    let mut args: Vec<String> = std::env::args().collect();
    // RUSTC_WORKSPACE_WRAPPER protocol: argv[1] is the path of the real rustc
    if args.len() > 1 && (args[1].ends_with("rustc") || args[1].contains("/rustc")) {
        args.remove(1);
    }
    rustc_driver::run_compiler(&args, &mut Cb);
}
